//! Generators for C19: serde-able mirror of `sdp_types::SessionDescription` and the strategies that
//! produce values *inside each field's documented grammar* (sound before complete), plus text
//! generators (arbitrary, grammar-derived hostile numbers, mutations of valid SDP).
//!
//! Restrictions of the value generator (every one is a restriction of the GENERATOR, the oracle has
//! no catch-all):
//! * origin user/id/version, candidate transport/typ/extension keys+values: non-empty, no ASCII
//!   whitespace (the parser's own field separator), no CR/LF; every code point >= U+0080 is an
//!   ordinary token character (RFC 8866 `non-ws-string = 1*(VCHAR / %x80-FF)`), in particular the
//!   Unicode white-space code points that are NOT ASCII white space (U+0085, U+00A0, U+1680,
//!   U+2000..U+200A, U+2028, U+2029, U+202F, U+205F, U+3000) and invisible format characters
//!   (U+00AD, U+180E, U+200B, U+2060, U+FEFF): `EXOTIC_TOKEN_CHARS`, generated at the start, in the
//!   middle and at the end of a token. U+000B is outside `non-ws-string` and never generated;
//! * near misses of well-known tokens (`near_miss`): an `Other` protocol / `Ext` suite / `Ext`
//!   session parameter / unknown attribute name / candidate extension key may be a well-known token
//!   in another letter case (all lower, all upper, swapped, one letter flipped, capitalised), a
//!   proper prefix or a proper suffix of it, or the token with a suffix appended — never the
//!   well-known spelling itself (SDP tokens are compared case-sensitively by the API: `Ext("x")`
//!   and the built-in variant are different values);
//! * `Other` protocol tokens follow RFC 8866 `proto = token *("/" token)`;
//! * FQDNs: 1..4 non-empty labels of `[A-Za-z0-9_-]` joined by `.`, never text that is itself an
//!   IPv4/IPv6 literal (DESIGN 1.2: "host names are not dotted quads");
//! * connection: `num` only together with `ttl` for IP4 (ezk's own unit test
//!   `connection_print_num_without_ttl` documents that `num` without `ttl` is not printed) and never a
//!   `ttl` for IP6 (RFC 8866 5.7);
//! * bandwidth type / attribute names: non-empty RFC 8866 `token`s; unknown attributes are never named
//!   like an attribute the crate parses itself (DESIGN "Not asserted");
//! * ice-options tags 1..8 `ice-char`, ufrag 4..256, pwd 22..256 `ice-char`;
//! * rtpmap encoding: non-empty token without `/`; rtpmap params: non-empty, no whitespace;
//! * fmtp params: non-empty, first character not an ASCII blank (DESIGN "Not asserted"); a first
//!   character that is a non-ASCII white-space code point is ordinary `byte-string` content;
//! * crypto: 1..3 keys (never an empty key list, never `FecKey([])`), key text non-empty base64
//!   alphabet, `Ext` suite `[A-Za-z0-9_]+` that is not exactly a well-known suite name, `Ext` session
//!   parameter: visible ASCII, not starting with `-`, not starting with a well-known parameter name
//!   followed by `=` and not exactly a well-known flag;
//! * `Other(protocol)` is never exactly `udp`, `RTP/AVP`, `RTP/SAVP`, `RTP/SAVPF`.

use proptest::collection::vec;
use proptest::option;
use proptest::prelude::*;
use serde::{Deserialize, Serialize};
use std::net::{IpAddr, Ipv4Addr};

// ---------------------------------------------------------------------------------------------
// mirror types
// ---------------------------------------------------------------------------------------------

#[derive(Clone, Debug, PartialEq, Eq, Hash, Serialize, Deserialize)]
pub enum TaggedC {
    Ip4([u8; 4]),
    Ip4Fqdn(String),
    Ip6([u16; 8]),
    Ip6Fqdn(String),
}

#[derive(Clone, Debug, PartialEq, Eq, Hash, Serialize, Deserialize)]
pub enum UntaggedC {
    V4([u8; 4]),
    V6([u16; 8]),
    Fqdn(String),
}

#[derive(Clone, Copy, Debug, PartialEq, Eq, Hash, Serialize, Deserialize)]
pub enum DirC {
    SendRecv,
    RecvOnly,
    SendOnly,
    Inactive,
}

#[derive(Clone, Copy, Debug, PartialEq, Eq, Hash, Serialize, Deserialize)]
pub enum MediaTypeC {
    Audio,
    Video,
    Text,
    App,
}

#[derive(Clone, Debug, PartialEq, Eq, Hash, Serialize, Deserialize)]
pub enum ProtoC {
    Udp,
    RtpAvp,
    RtpSavp,
    RtpSavpf,
    Other(String),
}

#[derive(Clone, Debug, PartialEq, Eq, Hash, Serialize, Deserialize)]
pub enum SuiteC {
    /// index into `refmodel::sdp::SUITE_NAMES`
    Known(u8),
    Ext(String),
}

#[derive(Clone, Debug, PartialEq, Eq, Hash, Serialize, Deserialize)]
pub struct OriginC {
    pub username: String,
    pub session_id: String,
    pub session_version: String,
    pub address: TaggedC,
}

#[derive(Clone, Debug, PartialEq, Eq, Hash, Serialize, Deserialize)]
pub struct ConnC {
    pub address: TaggedC,
    pub ttl: Option<u32>,
    pub num: Option<u32>,
}

#[derive(Clone, Debug, PartialEq, Eq, Hash, Serialize, Deserialize)]
pub struct BwC {
    pub type_: String,
    pub bandwidth: u32,
}

#[derive(Clone, Debug, PartialEq, Eq, Hash, Serialize, Deserialize)]
pub struct AttrC {
    pub name: String,
    pub value: Option<String>,
}

#[derive(Clone, Debug, PartialEq, Eq, Hash, Serialize, Deserialize)]
pub struct RtcpC {
    pub port: u16,
    pub address: Option<TaggedC>,
}

#[derive(Clone, Debug, PartialEq, Eq, Hash, Serialize, Deserialize)]
pub struct RtpMapC {
    pub payload: u32,
    pub encoding: String,
    pub clock_rate: u32,
    pub params: Option<String>,
}

#[derive(Clone, Debug, PartialEq, Eq, Hash, Serialize, Deserialize)]
pub struct FmtpC {
    pub format: u32,
    pub params: String,
}

#[derive(Clone, Debug, PartialEq, Eq, Hash, Serialize, Deserialize)]
pub struct CandC {
    pub foundation: String,
    pub component: u32,
    pub transport: String,
    pub priority: u64,
    pub address: UntaggedC,
    pub port: u16,
    pub typ: String,
    pub rel_addr: Option<UntaggedC>,
    pub rel_port: Option<u16>,
    pub unknown: Vec<(String, String)>,
}

#[derive(Clone, Debug, PartialEq, Eq, Hash, Serialize, Deserialize)]
pub struct KeyC {
    pub key_and_salt: String,
    pub lifetime: Option<u32>,
    pub mki: Option<(u32, u32)>,
}

#[derive(Clone, Debug, PartialEq, Eq, Hash, Serialize, Deserialize)]
pub enum ParamC {
    Kdr(u32),
    UnencryptedSrtp,
    UnencryptedSrtcp,
    UnauthenticatedSrtp,
    FecOrderFecSrtp,
    FecOrderSrtpFec,
    FecKey(Vec<KeyC>),
    Wsh(u32),
    Ext(String),
}

#[derive(Clone, Debug, PartialEq, Eq, Hash, Serialize, Deserialize)]
pub struct CryptoC {
    pub tag: u32,
    pub suite: SuiteC,
    pub keys: Vec<KeyC>,
    pub params: Vec<ParamC>,
}

#[derive(Clone, Debug, PartialEq, Eq, Hash, Serialize, Deserialize)]
pub struct MediaC {
    pub media_type: MediaTypeC,
    pub port: u16,
    pub ports_num: Option<u32>,
    pub proto: ProtoC,
    pub fmts: Vec<u32>,
    pub direction: DirC,
    pub connection: Option<ConnC>,
    pub bandwidth: Vec<BwC>,
    pub rtcp: Option<RtcpC>,
    pub rtpmaps: Vec<RtpMapC>,
    pub fmtps: Vec<FmtpC>,
    pub ice_ufrag: Option<String>,
    pub ice_pwd: Option<String>,
    pub candidates: Vec<CandC>,
    pub end_of_candidates: bool,
    pub crypto: Vec<CryptoC>,
    pub attributes: Vec<AttrC>,
}

#[derive(Clone, Debug, PartialEq, Eq, Hash, Serialize, Deserialize)]
pub struct SdpCase {
    pub origin: OriginC,
    pub name: String,
    pub connection: Option<ConnC>,
    pub bandwidth: Vec<BwC>,
    pub time: (u64, u64),
    pub direction: DirC,
    pub ice_options: Vec<String>,
    pub ice_lite: bool,
    pub ice_ufrag: Option<String>,
    pub ice_pwd: Option<String>,
    pub attributes: Vec<AttrC>,
    pub media: Vec<MediaC>,
}

// ---------------------------------------------------------------------------------------------
// well-known names (written from RFC 8866 / 8839 / 4568 / 7714 / 6188, not read from ezk)
// ---------------------------------------------------------------------------------------------

pub const MEDIA_TYPE_NAMES: [&str; 4] = ["audio", "video", "text", "application"];
pub const PROTO_NAMES: [&str; 4] = ["udp", "RTP/AVP", "RTP/SAVP", "RTP/SAVPF"];
pub const SUITE_NAMES: [&str; 9] = [
    "AES_CM_128_HMAC_SHA1_80",
    "AES_CM_128_HMAC_SHA1_32",
    "F8_128_HMAC_SHA1_80",
    "AES_192_CM_HMAC_SHA1_80",
    "AES_192_CM_HMAC_SHA1_32",
    "AES_256_CM_HMAC_SHA1_80",
    "AES_256_CM_HMAC_SHA1_32",
    "AEAD_AES_128_GCM",
    "AEAD_AES_256_GCM",
];
/// attribute names the crate interprets itself (with or without a value) — an *unknown* attribute
/// is never given one of these names
pub const KNOWN_ATTR_NAMES: [&str; 14] = [
    "rtpmap",
    "fmtp",
    "rtcp",
    "ice-lite",
    "ice-options",
    "ice-ufrag",
    "ice-pwd",
    "candidate",
    "crypto",
    "sendrecv",
    "recvonly",
    "sendonly",
    "inactive",
    "end-of-candidates",
];
pub const PARAM_FLAGS: [&str; 3] = ["UNENCRYPTED_SRTP", "UNENCRYPTED_SRTCP", "UNAUTHENTICATED_SRTP"];
const PARAM_KEYED: [&str; 4] = ["KDR=", "FEC_ORDER=", "FEC_KEY=", "WSH="];
/// (name, a value that is valid for the well-known parameter of that name)
const PARAM_KEYED_SAMPLES: [(&str, &str); 6] = [
    ("KDR=", "5"),
    ("KDR=", "24"),
    ("WSH=", "64"),
    ("FEC_ORDER=", "FEC_SRTP"),
    ("FEC_ORDER=", "SRTP_FEC"),
    ("FEC_KEY=", "inline:QUJDREVGR0g="),
];
/// candidate extension keys the crate interprets itself, and the literal in front of the type
pub const CAND_KEYWORDS: [&str; 3] = ["raddr", "rport", "typ"];

// ---------------------------------------------------------------------------------------------
// leaf strategies
// ---------------------------------------------------------------------------------------------

pub fn edge_u16() -> BoxedStrategy<u16> {
    prop_oneof![
        4 => any::<u16>(),
        2 => 0u16..1100,
        1 => Just(0u16),
        1 => Just(u16::MAX),
    ]
    .boxed()
}

pub fn edge_u32() -> BoxedStrategy<u32> {
    prop_oneof![
        4 => any::<u32>(),
        3 => 0u32..130,
        1 => Just(0u32),
        1 => Just(u32::MAX),
        1 => (0u32..32).prop_map(|k| 1u32 << k),
        1 => Just(u16::MAX as u32 + 1),
    ]
    .boxed()
}

pub fn edge_u64() -> BoxedStrategy<u64> {
    prop_oneof![
        4 => any::<u64>(),
        3 => 0u64..4_000_000_000,
        1 => Just(0u64),
        1 => Just(u64::MAX),
        1 => Just(u32::MAX as u64 + 1),
    ]
    .boxed()
}

/// Code points >= U+0080 that Unicode classifies as white space (the first 19: everything with the
/// `White_Space` property outside ASCII) or that render as nothing (the last 5). None of them is
/// ASCII white space, the only separator of SDP fields; inside a `non-ws-string` they are token
/// content.
pub const EXOTIC_TOKEN_CHARS: [char; 24] = [
    '\u{85}', '\u{a0}', '\u{1680}', '\u{2000}', '\u{2001}', '\u{2002}', '\u{2003}', '\u{2004}', '\u{2005}',
    '\u{2006}', '\u{2007}', '\u{2008}', '\u{2009}', '\u{200a}', '\u{2028}', '\u{2029}', '\u{202f}', '\u{205f}',
    '\u{3000}', '\u{ad}', '\u{180e}', '\u{200b}', '\u{2060}', '\u{feff}',
];

/// a code point that is white space for Unicode but not for ASCII
pub fn is_unicode_only_ws(c: char) -> bool {
    !c.is_ascii() && c.is_whitespace()
}

fn exotic_char() -> BoxedStrategy<char> {
    prop::sample::select(EXOTIC_TOKEN_CHARS.to_vec()).boxed()
}

/// a token with 1..2 exotic code points: leading, embedded, trailing, or nothing else at all
fn exotic_token() -> BoxedStrategy<String> {
    (
        "[A-Za-z0-9]{0,4}",
        exotic_char(),
        "[!-~]{0,4}",
        option::weighted(0.3, exotic_char()),
        "[A-Za-z0-9é]{0,3}",
    )
        .prop_map(|(a, x, b, y, c)| {
            let mut s = a;
            s.push(x);
            s.push_str(&b);
            if let Some(y) = y {
                s.push(y);
            }
            s.push_str(&c);
            s
        })
        .boxed()
}

/// non-empty text without ASCII whitespace
fn nonws() -> BoxedStrategy<String> {
    prop_oneof![
        6 => "[A-Za-z0-9]{1,10}",
        3 => "[!-~]{1,12}",
        1 => "[!-~¡-ÿ一-丠😀-😏]{1,6}",
        2 => exotic_token(),
    ]
    .boxed()
}

/// Near misses of a well-known token `k` (never `k` itself unless `k` has no letters and the
/// caller's own guard applies): `mode` 0 lower case, 1 upper case, 2 every letter's case swapped,
/// 3 one letter (chosen by `sel`) flipped, 4 first letter upper / rest lower, 5 proper non-empty
/// prefix, 6 proper non-empty suffix. Characters are only re-cased or removed, so the result stays
/// inside whatever character class `k` is in.
pub fn near_miss_of(k: &str, mode: u8, sel: u16) -> String {
    use crate::engine::pick_idx;
    let chars: Vec<char> = k.chars().collect();
    let swap = |c: char| if c.is_ascii_lowercase() { c.to_ascii_uppercase() } else { c.to_ascii_lowercase() };
    let out: String = match mode % 7 {
        0 => k.to_ascii_lowercase(),
        1 => k.to_ascii_uppercase(),
        2 => chars.iter().map(|c| swap(*c)).collect(),
        3 => {
            let letters: Vec<usize> = (0..chars.len()).filter(|i| chars[*i].is_ascii_alphabetic()).collect();
            let mut v = chars.clone();
            if !letters.is_empty() {
                let i = letters[pick_idx(sel, letters.len())];
                v[i] = swap(v[i]);
            }
            v.into_iter().collect()
        }
        4 => {
            let mut first = true;
            chars
                .iter()
                .map(|c| {
                    if c.is_ascii_alphabetic() && first {
                        first = false;
                        c.to_ascii_uppercase()
                    } else {
                        c.to_ascii_lowercase()
                    }
                })
                .collect()
        }
        5 if chars.len() >= 2 => chars[..1 + pick_idx(sel, chars.len() - 1)].iter().collect(),
        6 if chars.len() >= 2 => chars[1 + pick_idx(sel, chars.len() - 1)..].iter().collect(),
        _ => k.to_string(),
    };
    if out == k {
        // lower(k) == k (e.g. "udp") or upper(k) == k: take the opposite case
        let o: String = chars.iter().map(|c| swap(*c)).collect();
        return o;
    }
    out
}

fn near_miss(names: &'static [&'static str]) -> BoxedStrategy<String> {
    (prop::sample::select(names.to_vec()), 0u8..7, any::<u16>())
        .prop_map(|(k, mode, sel)| near_miss_of(k, mode, sel))
        .boxed()
}

/// how `s` relates to the well-known tokens `names` (class labels / non-trivial accounting)
pub fn near_miss_kind(s: &str, names: &[&str]) -> Option<&'static str> {
    if names.contains(&s) {
        return None;
    }
    if names.iter().any(|k| s.eq_ignore_ascii_case(k)) {
        Some("case-variant")
    } else if names.iter().any(|k| s.starts_with(k)) {
        Some("extending-wellknown")
    } else if s.len() >= 2 && names.iter().any(|k| k.starts_with(s) || k.ends_with(s)) {
        Some("part-of-wellknown")
    } else {
        None
    }
}

fn is_ip_literal(s: &str) -> bool {
    s.parse::<IpAddr>().is_ok() || s.parse::<Ipv4Addr>().is_ok()
}

fn hostname() -> BoxedStrategy<String> {
    (
        vec(
            prop_oneof![3 => "[a-z][a-z0-9-]{0,7}", 1 => "[A-Za-z0-9_-]{1,8}"],
            1..=4,
        ),
        prop::bool::weighted(0.1),
    )
        .prop_map(|(labels, dot)| {
            let mut s = labels.join(".");
            if dot {
                s.push('.');
            }
            // by construction never an IP literal (e.g. four all-digit labels)
            if is_ip_literal(&s) {
                s.insert(0, 'h');
            }
            s
        })
        .boxed()
}

fn ip4() -> BoxedStrategy<[u8; 4]> {
    prop_oneof![
        3 => any::<[u8; 4]>(),
        1 => Just([0, 0, 0, 0]),
        1 => Just([255, 255, 255, 255]),
        1 => Just([224, 2, 17, 12]),
    ]
    .boxed()
}

fn ip6() -> BoxedStrategy<[u16; 8]> {
    prop_oneof![
        3 => any::<[u16; 8]>(),
        // sparse: runs of zeros exercise `::` compression
        3 => vec(prop_oneof![2 => Just(0u16), 1 => any::<u16>()], 8).prop_map(|v| {
            let mut a = [0u16; 8];
            a.copy_from_slice(&v);
            a
        }),
        1 => Just([0u16; 8]),
        1 => Just([0, 0, 0, 0, 0, 0, 0, 1]),
        // IPv4-mapped / compatible (std prints a dotted tail)
        1 => any::<[u8; 4]>().prop_map(|b| [0, 0, 0, 0, 0, 0xffff, u16::from_be_bytes([b[0], b[1]]), u16::from_be_bytes([b[2], b[3]])]),
        1 => Just([0xff15, 0, 0, 0, 0, 0, 0, 0x101]),
    ]
    .boxed()
}

pub fn tagged() -> BoxedStrategy<TaggedC> {
    prop_oneof![
        3 => ip4().prop_map(TaggedC::Ip4),
        2 => ip6().prop_map(TaggedC::Ip6),
        1 => hostname().prop_map(TaggedC::Ip4Fqdn),
        1 => hostname().prop_map(TaggedC::Ip6Fqdn),
    ]
    .boxed()
}

fn untagged() -> BoxedStrategy<UntaggedC> {
    prop_oneof![
        3 => ip4().prop_map(UntaggedC::V4),
        2 => ip6().prop_map(UntaggedC::V6),
        2 => hostname().prop_map(UntaggedC::Fqdn),
    ]
    .boxed()
}

fn conn() -> BoxedStrategy<ConnC> {
    (tagged(), option::of(edge_u32()), option::of(edge_u32()))
        .prop_map(|(address, ttl, num)| match address {
            // num only together with ttl (see module doc)
            TaggedC::Ip4(_) | TaggedC::Ip4Fqdn(_) => ConnC {
                num: if ttl.is_some() { num } else { None },
                ttl,
                address,
            },
            // IP6: never a ttl
            TaggedC::Ip6(_) | TaggedC::Ip6Fqdn(_) => ConnC {
                address,
                ttl: None,
                num,
            },
        })
        .boxed()
}

fn bw() -> BoxedStrategy<BwC> {
    (
        prop_oneof![
            3 => prop::sample::select(vec!["AS", "CT", "TIAS", "RS", "RR"]).prop_map(String::from),
            1 => "X-[a-z0-9]{1,6}",
            // RFC 8866 token-char
            1 => "[!#-'*+\\-.0-9A-Z^-~]{1,8}",
        ],
        edge_u32(),
    )
        .prop_map(|(type_, bandwidth)| BwC { type_, bandwidth })
        .boxed()
}

fn dir() -> BoxedStrategy<DirC> {
    prop_oneof![
        Just(DirC::SendRecv),
        Just(DirC::RecvOnly),
        Just(DirC::SendOnly),
        Just(DirC::Inactive),
    ]
    .boxed()
}

fn line_text(max: usize) -> BoxedStrategy<String> {
    // any text without CR/LF
    prop_oneof![
        4 => proptest::string::string_regex(&format!("[ -~]{{0,{max}}}")).unwrap(),
        1 => proptest::string::string_regex(&format!("[^\r\n]{{0,{}}}", max / 2)).unwrap(),
        // non-ASCII white space at the edges (a parser that trims must trim ASCII blanks at most)
        1 => (option::of(exotic_char()), "[ -~]{0,6}", option::of(exotic_char())).prop_map(|(x, mid, y)| {
            let mut s = String::new();
            if let Some(x) = x {
                s.push(x);
            }
            s.push_str(&mid);
            if let Some(y) = y {
                s.push(y);
            }
            s
        }),
    ]
    .boxed()
}

fn attr() -> BoxedStrategy<AttrC> {
    let name = prop_oneof![
        5 => "[a-z][a-z0-9-]{0,10}",
        1 => "[!#-'*+\\-.0-9A-Z^-~]{1,8}",
        // names that merely *extend* / resemble a known one are ordinary unknown attributes
        2 => (prop::sample::select(KNOWN_ATTR_NAMES.to_vec()), "[a-z0-9-]{1,3}")
            .prop_map(|(k, s)| format!("{k}{s}")),
        // ... or are spelled in another letter case / are a part of one (attribute names are
        // case-sensitive tokens, `a=SendRecv` is not a direction)
        2 => near_miss(&KNOWN_ATTR_NAMES),
        1 => prop::sample::select(vec!["mid", "rtcp-mux", "ssrc", "setup", "fingerprint", "rtcp-fb", "ptime", "x-rtpmap"]).prop_map(String::from),
    ]
    .prop_map(|mut n: String| {
        // never named exactly like an attribute the crate interprets itself
        if KNOWN_ATTR_NAMES.contains(&n.as_str()) {
            n.push_str("-x");
        }
        n
    });
    (name, option::weighted(0.7, line_text(20)))
        .prop_map(|(name, value)| AttrC { name, value })
        .boxed()
}

fn ice_chars(min: usize, max: usize) -> BoxedStrategy<String> {
    proptest::string::string_regex(&format!("[A-Za-z0-9+/]{{{min},{max}}}"))
        .unwrap()
        .boxed()
}

fn ufrag() -> BoxedStrategy<String> {
    prop_oneof![6 => ice_chars(4, 12), 1 => ice_chars(4, 4), 1 => ice_chars(256, 256), 1 => ice_chars(200, 256)].boxed()
}

fn pwd() -> BoxedStrategy<String> {
    prop_oneof![6 => ice_chars(22, 32), 1 => ice_chars(22, 22), 1 => ice_chars(256, 256), 1 => ice_chars(200, 256)].boxed()
}

fn media_type() -> BoxedStrategy<MediaTypeC> {
    prop_oneof![
        Just(MediaTypeC::Audio),
        Just(MediaTypeC::Video),
        Just(MediaTypeC::Text),
        Just(MediaTypeC::App),
    ]
    .boxed()
}

/// `Other` tokens that extend / resemble a well-known protocol token
pub const PROTO_EXTENDING: [&str; 12] = [
    "RTP/AVPF",
    "RTP/SAVPFX",
    "udptl",
    "UDP/TLS/RTP/SAVPF",
    "UDP/TLS/RTP/SAVP",
    "RTP/AVP/x",
    "RTP/SAVP_",
    "udp4",
    "UDP",
    "rtp/avp",
    "TCP/MSRP",
    "RTP/SAVPF/1",
];

/// `Other(token)`, never exactly a well-known token (`RTP/SAVP` + `F` is `RTP/SAVPF`)
fn other_proto(mut s: String) -> ProtoC {
    if PROTO_NAMES.contains(&s.as_str()) {
        s.push('x');
    }
    ProtoC::Other(s)
}

fn ext_suite(mut s: String) -> SuiteC {
    if SUITE_NAMES.contains(&s.as_str()) {
        s.push_str("_X");
    }
    SuiteC::Ext(s)
}

fn proto() -> BoxedStrategy<ProtoC> {
    prop_oneof![
        1 => Just(ProtoC::Udp),
        3 => Just(ProtoC::RtpAvp),
        2 => Just(ProtoC::RtpSavp),
        3 => Just(ProtoC::RtpSavpf),
        3 => prop::sample::select(PROTO_EXTENDING.to_vec()).prop_map(|s| ProtoC::Other(s.to_string())),
        // RFC 8866: proto = token *("/" token) — a token never starts with '/' (`m=audio 0 /0` would
        // read "/0" as the number of ports), so suffixes and free tokens are built from that grammar
        1 => (
            prop::sample::select(PROTO_NAMES.to_vec()),
            prop_oneof!["[A-Za-z0-9_]{1,3}", "/[A-Za-z0-9]{1,3}", "[A-Za-z0-9_]/[A-Za-z0-9]"],
        )
            .prop_map(|(k, s)| other_proto(format!("{k}{s}"))),
        1 => vec(prop_oneof![3 => "[A-Za-z0-9_.-]{1,6}", 1 => "[!#-'*+\\-.0-9A-Z^-~]{1,6}"], 1..=4)
            .prop_map(|t| other_proto(t.join("/"))),
        // a well-known token in another letter case, or a part of one; parts are cut back to the
        // proto grammar (no leading / trailing '/')
        2 => near_miss(&PROTO_NAMES).prop_map(|s| {
            let t = s.trim_matches('/');
            other_proto(if t.is_empty() { "x".to_string() } else { t.to_string() })
        }),
    ]
    .boxed()
}

fn suite() -> BoxedStrategy<SuiteC> {
    prop_oneof![
        6 => (0u8..SUITE_NAMES.len() as u8).prop_map(SuiteC::Known),
        2 => (0usize..SUITE_NAMES.len(), "[A-Za-z0-9_]{1,3}")
            .prop_map(|(i, s)| ext_suite(format!("{}{}", SUITE_NAMES[i], s))),
        1 => "[A-Za-z0-9_]{1,16}".prop_map(ext_suite),
        // a well-known suite name in another letter case, or a part of one
        2 => near_miss(&SUITE_NAMES).prop_map(ext_suite),
    ]
    .boxed()
}

fn lifetime() -> BoxedStrategy<Option<u32>> {
    prop_oneof![
        3 => Just(None),
        // plain
        3 => edge_u32().prop_map(Some),
        // power of two (printed as 2^n), every exponent a u32 can hold
        3 => (0u32..32).prop_map(|k| Some(1u32 << k)),
    ]
    .boxed()
}

fn key() -> BoxedStrategy<KeyC> {
    (
        prop_oneof![4 => "[A-Za-z0-9+/]{1,44}={0,2}", 1 => "[A-Za-z0-9+/=]{1,8}"],
        lifetime(),
        option::weighted(0.4, (edge_u32(), edge_u32())),
    )
        .prop_map(|(key_and_salt, lifetime, mki)| KeyC {
            key_and_salt,
            lifetime,
            mki,
        })
        .boxed()
}

fn param() -> BoxedStrategy<ParamC> {
    prop_oneof![
        2 => edge_u32().prop_map(ParamC::Kdr),
        1 => Just(ParamC::UnencryptedSrtp),
        1 => Just(ParamC::UnencryptedSrtcp),
        1 => Just(ParamC::UnauthenticatedSrtp),
        1 => Just(ParamC::FecOrderFecSrtp),
        1 => Just(ParamC::FecOrderSrtpFec),
        2 => vec(key(), 1..=2).prop_map(ParamC::FecKey),
        2 => edge_u32().prop_map(ParamC::Wsh),
        2 => prop_oneof![
            3 => "[A-Za-z][A-Za-z0-9_]{0,8}(=[A-Za-z0-9]{1,5})?",
            2 => "[!-~]{1,10}",
            // an extension whose name merely extends a well-known flag (RFC 4568 9.2:
            // srtp-session-extension = ["-"] 1*VCHAR, parameters are separated by blanks)
            1 => (prop::sample::select(PARAM_FLAGS.to_vec()), "[A-Z0-9_]{1,3}").prop_map(|(k, s)| format!("{k}{s}")),
            // a well-known flag in another letter case / a part of one
            1 => near_miss(&PARAM_FLAGS),
            // a well-known keyed parameter whose name is in another letter case (modes 0..=4 only:
            // a part of the name is just some extension)
            1 => (prop::sample::select(PARAM_KEYED_SAMPLES.to_vec()), 0u8..5, any::<u16>()).prop_map(|((k, v), mode, sel)| {
                format!("{}{v}", near_miss_of(k, mode, sel))
            }),
        ]
        .prop_map(|mut s: String| {
            // not a (malformed) well-known parameter and no leading '-'
            if s.starts_with('-') {
                s.replace_range(0..1, "x");
            }
            if PARAM_KEYED.iter().any(|p| s.starts_with(p)) || PARAM_FLAGS.contains(&s.as_str()) {
                s.insert(0, 'X');
            }
            ParamC::Ext(s)
        }),
    ]
    .boxed()
}

fn crypto() -> BoxedStrategy<CryptoC> {
    (edge_u32(), suite(), vec(key(), 1..=3), vec(param(), 0..=4))
        .prop_map(|(tag, suite, keys, params)| CryptoC {
            tag,
            suite,
            keys,
            params,
        })
        .boxed()
}

fn candidate() -> BoxedStrategy<CandC> {
    let transport = prop_oneof![
        4 => prop::sample::select(vec!["UDP", "TCP", "udp", "tcp"]).prop_map(String::from),
        1 => nonws(),
    ];
    let typ = prop_oneof![
        4 => prop::sample::select(vec!["host", "srflx", "prflx", "relay"]).prop_map(String::from),
        1 => nonws(),
    ];
    let ext_key = prop_oneof![
        3 => prop::sample::select(vec!["tcptype", "generation", "ufrag", "network-id", "network-cost", "raddrx", "rport2", "typ"]).prop_map(String::from),
        1 => nonws(),
        // the crate's own keys in another letter case / a part of one
        1 => near_miss(&CAND_KEYWORDS),
    ]
    .prop_map(|mut k: String| {
        // raddr / rport are the crate's own keys
        if k == "raddr" || k == "rport" {
            k.push('x');
        }
        k
    });
    (
        (ice_chars(1, 32), edge_u32(), transport, edge_u64(), untagged(), edge_u16(), typ),
        option::weighted(0.4, untagged()),
        option::weighted(0.4, edge_u16()),
        vec((ext_key, nonws()), 0..=3),
    )
        .prop_map(
            |((foundation, component, transport, priority, address, port, typ), rel_addr, rel_port, unknown)| CandC {
                foundation,
                component,
                transport,
                priority,
                address,
                port,
                typ,
                rel_addr,
                rel_port,
                unknown,
            },
        )
        .boxed()
}

fn rtpmap() -> BoxedStrategy<RtpMapC> {
    (
        edge_u32(),
        prop_oneof![
            3 => prop::sample::select(vec!["PCMU", "PCMA", "opus", "telephone-event", "H264", "VP8", "G722"]).prop_map(String::from),
            1 => "[A-Za-z0-9._-]{1,10}",
            1 => "[!#-'*+\\-.0-9A-Z^-~]{1,8}",
        ],
        edge_u32(),
        option::weighted(0.4, prop_oneof![3 => "[1-9][0-9]{0,2}", 1 => "[!-~]{1,8}"]),
    )
        .prop_map(|(payload, encoding, clock_rate, params)| RtpMapC {
            payload,
            encoding,
            clock_rate,
            params,
        })
        .boxed()
}

fn fmtp() -> BoxedStrategy<FmtpC> {
    (
        edge_u32(),
        prop_oneof![
            3 => "[a-z-]{1,10}=[a-z0-9]{1,6}(;[a-z-]{1,8}=[0-9]{1,4}){0,2}",
            2 => "[!-~][ -~]{0,20}",
            1 => "[!-~¡-ÿ][^\r\n]{0,8}",
            // first / last character a non-ASCII white-space code point
            1 => (exotic_char(), "[ -~]{0,8}", option::of(exotic_char())).prop_map(|(x, mid, y)| {
                let mut s = String::from(x);
                s.push_str(&mid);
                if let Some(y) = y {
                    s.push(y);
                }
                s
            }),
        ],
    )
        .prop_map(|(format, params)| FmtpC { format, params })
        .boxed()
}

fn rtcp() -> BoxedStrategy<RtcpC> {
    (edge_u16(), option::weighted(0.5, tagged()))
        .prop_map(|(port, address)| RtcpC { port, address })
        .boxed()
}

pub fn media() -> BoxedStrategy<MediaC> {
    (
        (
            media_type(),
            edge_u16(),
            option::weighted(0.3, edge_u32()),
            proto(),
            vec(edge_u32(), 0..=4),
            dir(),
        ),
        (
            option::weighted(0.4, conn()),
            vec(bw(), 0..=2),
            option::weighted(0.4, rtcp()),
            vec(rtpmap(), 0..=3),
            vec(fmtp(), 0..=2),
        ),
        (
            option::weighted(0.4, ufrag()),
            option::weighted(0.4, pwd()),
            prop_oneof![2 => Just(vec![]), 3 => vec(candidate(), 1..=4)],
            prop::bool::weighted(0.4),
            prop_oneof![2 => Just(vec![]), 3 => vec(crypto(), 1..=3)],
            vec(attr(), 0..=3),
        ),
    )
        .prop_map(
            |(
                (media_type, port, ports_num, proto, fmts, direction),
                (connection, bandwidth, rtcp, rtpmaps, fmtps),
                (ice_ufrag, ice_pwd, candidates, end_of_candidates, crypto, attributes),
            )| MediaC {
                media_type,
                port,
                ports_num,
                proto,
                fmts,
                direction,
                connection,
                bandwidth,
                rtcp,
                rtpmaps,
                fmtps,
                ice_ufrag,
                ice_pwd,
                candidates,
                end_of_candidates,
                crypto,
                attributes,
            },
        )
        .boxed()
}

pub fn crypto_line() -> BoxedStrategy<CryptoC> {
    crypto()
}

fn session_with(media: BoxedStrategy<Vec<MediaC>>) -> BoxedStrategy<SdpCase> {
    (
        (nonws(), nonws(), nonws(), tagged()),
        line_text(24),
        (option::weighted(0.5, conn()), vec(bw(), 0..=3), (edge_u64(), edge_u64()), dir()),
        (
            vec(ice_chars(1, 8), 0..=3),
            prop::bool::weighted(0.4),
            option::weighted(0.4, ufrag()),
            option::weighted(0.4, pwd()),
            vec(attr(), 0..=3),
        ),
        media,
    )
        .prop_map(
            |(
                (username, session_id, session_version, address),
                name,
                (connection, bandwidth, time, direction),
                (ice_options, ice_lite, ice_ufrag, ice_pwd, attributes),
                media,
            )| SdpCase {
                origin: OriginC {
                    username,
                    session_id,
                    session_version,
                    address,
                },
                name,
                connection,
                bandwidth,
                time,
                direction,
                ice_options,
                ice_lite,
                ice_ufrag,
                ice_pwd,
                attributes,
                media,
            },
        )
        .boxed()
}

/// `SessionDescription` values with 0..4 media sections
pub fn session() -> BoxedStrategy<SdpCase> {
    session_with(vec(media(), 0..=4).boxed())
}

/// `SessionDescription` values with 1..3 media sections (for metamorphic token checks)
pub fn session_with_media() -> BoxedStrategy<SdpCase> {
    session_with(vec(media(), 1..=3).boxed())
}

// ---------------------------------------------------------------------------------------------
// text generation
// ---------------------------------------------------------------------------------------------

/// decimal numbers around and far beyond every integer width the crate parses into
pub const HOSTILE_NUMBERS: [&str; 20] = [
    "0",
    "1",
    "31",
    "32",
    "33",
    "63",
    "64",
    "99",
    "255",
    "256",
    "65535",
    "65536",
    "2147483648",
    "4294967295",
    "4294967296",
    "18446744073709551615",
    "18446744073709551616",
    "99999999999999999999",
    "340282366920938463463374607431768211456",
    "00000000000000000000000000000000000000001",
];

/// line templates: `#` = a hostile number, `^` = an exponent 0..=99
pub const HOSTILE_TEMPLATES: [&str; 30] = [
    "a=crypto:1 AES_CM_128_HMAC_SHA1_80 inline:d0RmdmcmVCspeEc3QGZiNWpVLFJhQX1cfHAwJSoj|2^^|1:4",
    "a=crypto:# AES_CM_128_HMAC_SHA1_32 inline:abc|2^^",
    "a=crypto:# AEAD_AES_256_GCM inline:abc|#|#:# KDR=# WSH=# FEC_KEY=inline:xyz|2^^|#:#",
    "a=crypto:1 F8_128_HMAC_SHA1_80 inline:abc|2^^;inline:def|2^^|#:# FEC_ORDER=FEC_SRTP",
    "a=crypto:1 FOO_# inline:abc|#",
    "a=crypto:1 AES_CM_128_HMAC_SHA1_80 inline:|2^^",
    "a=crypto:1 AES_CM_128_HMAC_SHA1_80",
    "m=audio # RTP/AVP # #",
    "m=video #/# RTP/SAVPF # # #",
    "m=audio# # RTP/AVP #",
    "m=application # UDP/DTLS/SCTP webrtc-datachannel",
    "m=text #/# udp",
    "c=IN IP4 224.2.1.1/#/#",
    "c=IN IP4 host.example/#",
    "c=IN IP6 ff15::101/#",
    "c=IN IP6 ::#.#.#.#/#/#",
    "b=AS:#",
    "b=:#",
    "t=# #",
    "o=- # # IN IP4 #.#.#.#",
    "a=rtpmap:# opus/#/#",
    "a=rtpmap:# /#",
    "a=fmtp:# minptime=#",
    "a=rtcp:# IN IP4 192.0.2.1",
    "a=rtcp:# IN IP6 #::#",
    "a=candidate:# # UDP # 192.0.2.1 # typ host raddr 192.0.2.2 rport #",
    "a=candidate:F00 # TCP # ::# # typ srflx generation # rport # raddr #",
    "a=ice-ufrag:#",
    "a=ice-pwd:##",
    "a=ice-options:# #",
];

pub fn fill_template(t: &str, nums: &[u16], exps: &[u8]) -> String {
    let mut out = String::new();
    let (mut ni, mut ei) = (0usize, 0usize);
    let chars: Vec<char> = t.chars().collect();
    let mut i = 0;
    while i < chars.len() {
        let c = chars[i];
        // "2^^": the first '^' is literal, the second the exponent slot
        if c == '^' && i > 0 && chars[i - 1] == '^' {
            let e = exps.get(ei % exps.len().max(1)).copied().unwrap_or(40);
            ei += 1;
            out.push_str(&e.to_string());
        } else if c == '#' {
            let sel = nums.get(ni % nums.len().max(1)).copied().unwrap_or(0);
            ni += 1;
            out.push_str(HOSTILE_NUMBERS[crate::engine::pick_idx(sel, HOSTILE_NUMBERS.len())]);
        } else {
            out.push(c);
        }
        i += 1;
    }
    out
}

fn hostile_line() -> BoxedStrategy<String> {
    (any::<u16>(), vec(any::<u16>(), 8), vec(0u8..=99, 4))
        .prop_map(|(t, nums, exps)| {
            fill_template(
                HOSTILE_TEMPLATES[crate::engine::pick_idx(t, HOSTILE_TEMPLATES.len())],
                &nums,
                &exps,
            )
        })
        .boxed()
}

/// a document made of a valid header and hostile lines
pub fn hostile_doc() -> BoxedStrategy<String> {
    (vec(hostile_line(), 1..=8), prop::bool::weighted(0.8), any::<bool>())
        .prop_map(|(lines, header, crlf)| {
            let mut all: Vec<String> = vec![];
            if header {
                all.push("v=0".into());
                all.push("o=- 1 1 IN IP4 192.0.2.1".into());
                all.push("s=-".into());
                all.push("t=0 0".into());
                all.push("m=audio 9 RTP/AVP 0".into());
            }
            all.extend(lines);
            let sep = if crlf { "\r\n" } else { "\n" };
            let mut s = all.join(sep);
            s.push_str(sep);
            s
        })
        .boxed()
}

#[derive(Clone, Debug, Serialize, Deserialize)]
pub enum Mutation {
    ReplaceChar(u16, char),
    InsertChar(u16, char),
    DeleteChar(u16),
    DeleteRange(u16, u8),
    DupLine(u16),
    DelLine(u16),
    SwapLines(u16, u16),
    TruncLine(u16, u16),
    InsertLine(u16, String),
    /// replace the n-th maximal digit run by a hostile number
    ReplaceNumber(u16, u16),
    /// replace the n-th maximal digit run that follows "2^" by an exponent 0..=99
    ReplaceExponent(u16, u8),
}

fn interesting_char() -> BoxedStrategy<char> {
    prop_oneof![
        4 => prop::sample::select(vec![' ', ':', '/', '=', '|', ';', '^', '-', '\t', '\r', '\n', '0', '9', '2', 'a', 'm', 'F', '_', '.', 'é', '😀', '\u{0}', '\u{c}']),
        1 => any::<char>(),
    ]
    .boxed()
}

pub fn mutation() -> BoxedStrategy<Mutation> {
    prop_oneof![
        2 => (any::<u16>(), interesting_char()).prop_map(|(p, c)| Mutation::ReplaceChar(p, c)),
        2 => (any::<u16>(), interesting_char()).prop_map(|(p, c)| Mutation::InsertChar(p, c)),
        2 => any::<u16>().prop_map(Mutation::DeleteChar),
        1 => (any::<u16>(), 1u8..20).prop_map(|(p, n)| Mutation::DeleteRange(p, n)),
        1 => any::<u16>().prop_map(Mutation::DupLine),
        1 => any::<u16>().prop_map(Mutation::DelLine),
        1 => (any::<u16>(), any::<u16>()).prop_map(|(a, b)| Mutation::SwapLines(a, b)),
        1 => (any::<u16>(), any::<u16>()).prop_map(|(a, b)| Mutation::TruncLine(a, b)),
        2 => (any::<u16>(), hostile_line()).prop_map(|(a, l)| Mutation::InsertLine(a, l)),
        4 => (any::<u16>(), any::<u16>()).prop_map(|(a, b)| Mutation::ReplaceNumber(a, b)),
        2 => (any::<u16>(), 0u8..=99).prop_map(|(a, b)| Mutation::ReplaceExponent(a, b)),
    ]
    .boxed()
}

fn digit_runs(chars: &[char]) -> Vec<(usize, usize)> {
    let mut runs = vec![];
    let mut i = 0;
    while i < chars.len() {
        if chars[i].is_ascii_digit() {
            let s = i;
            while i < chars.len() && chars[i].is_ascii_digit() {
                i += 1;
            }
            runs.push((s, i));
        } else {
            i += 1;
        }
    }
    runs
}

pub fn apply_mutation(text: &str, m: &Mutation) -> String {
    use crate::engine::pick_idx;
    let mut chars: Vec<char> = text.chars().collect();
    let by_lines = |f: &mut dyn FnMut(&mut Vec<String>)| -> String {
        let mut lines: Vec<String> = text.split("\r\n").map(String::from).collect();
        f(&mut lines);
        lines.join("\r\n")
    };
    match m {
        Mutation::ReplaceChar(p, c) => {
            if !chars.is_empty() {
                let i = pick_idx(*p, chars.len());
                chars[i] = *c;
            }
            chars.into_iter().collect()
        }
        Mutation::InsertChar(p, c) => {
            let i = pick_idx(*p, chars.len() + 1);
            chars.insert(i, *c);
            chars.into_iter().collect()
        }
        Mutation::DeleteChar(p) => {
            if !chars.is_empty() {
                let i = pick_idx(*p, chars.len());
                chars.remove(i);
            }
            chars.into_iter().collect()
        }
        Mutation::DeleteRange(p, n) => {
            if !chars.is_empty() {
                let i = pick_idx(*p, chars.len());
                let e = (i + *n as usize).min(chars.len());
                chars.drain(i..e);
            }
            chars.into_iter().collect()
        }
        Mutation::DupLine(a) => by_lines(&mut |l| {
            let i = pick_idx(*a, l.len());
            let x = l[i].clone();
            l.insert(i, x);
        }),
        Mutation::DelLine(a) => by_lines(&mut |l| {
            let i = pick_idx(*a, l.len());
            l.remove(i);
        }),
        Mutation::SwapLines(a, b) => by_lines(&mut |l| {
            let i = pick_idx(*a, l.len());
            let j = pick_idx(*b, l.len());
            l.swap(i, j);
        }),
        Mutation::TruncLine(a, b) => by_lines(&mut |l| {
            let i = pick_idx(*a, l.len());
            let cs: Vec<char> = l[i].chars().collect();
            let k = pick_idx(*b, cs.len() + 1);
            l[i] = cs[..k].iter().collect();
        }),
        Mutation::InsertLine(a, line) => by_lines(&mut |l| {
            let i = pick_idx(*a, l.len() + 1);
            l.insert(i, line.clone());
        }),
        Mutation::ReplaceNumber(a, b) => {
            let runs = digit_runs(&chars);
            if runs.is_empty() {
                return text.to_string();
            }
            let (s, e) = runs[pick_idx(*a, runs.len())];
            let rep: Vec<char> = HOSTILE_NUMBERS[pick_idx(*b, HOSTILE_NUMBERS.len())].chars().collect();
            chars.splice(s..e, rep);
            chars.into_iter().collect()
        }
        Mutation::ReplaceExponent(a, b) => {
            let runs: Vec<(usize, usize)> = digit_runs(&chars)
                .into_iter()
                .filter(|(s, _)| *s >= 2 && chars[*s - 1] == '^' && chars[*s - 2] == '2')
                .collect();
            if runs.is_empty() {
                return text.to_string();
            }
            let (s, e) = runs[pick_idx(*a, runs.len())];
            let rep: Vec<char> = b.to_string().chars().collect();
            chars.splice(s..e, rep);
            chars.into_iter().collect()
        }
    }
}
