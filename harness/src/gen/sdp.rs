//! Generators for C19: serde-able mirror of `sdp_types::SessionDescription` and the strategies that
//! produce values *inside each field's documented grammar* (sound before complete), plus text
//! generators (arbitrary, grammar-derived hostile numbers, mutations of valid SDP).
//!
//! Restrictions of the value generator (every one is a restriction of the GENERATOR, the oracle has
//! no catch-all):
//! * origin user/id/version, candidate transport/typ/extension keys+values: non-empty, no ASCII
//!   whitespace (the parser's own field separator), no CR/LF; every code point >= U+0080 is an
//!   ordinary token character (RFC 8866 `non-ws-string = 1*(VCHAR / %x80-FF)`), in particular the
//!   Unicode white-space code points that are NOT ASCII white space (U+0085, U+00A0, U+1680,
//!   U+2000..U+200A, U+2028, U+2029, U+202F, U+205F, U+3000) and invisible format characters
//!   (U+00AD, U+180E, U+200B, U+2060, U+FEFF): `EXOTIC_TOKEN_CHARS`, generated at the start, in the
//!   middle and at the end of a token. U+000B is outside `non-ws-string` and never generated;
//! * near misses of well-known tokens (`near_miss`): an `Other` protocol / `Ext` suite / `Ext`
//!   session parameter / unknown attribute name / candidate extension key may be a well-known token
//!   in another letter case (all lower, all upper, swapped, one letter flipped, capitalised), a
//!   proper prefix or a proper suffix of it, or the token with a suffix appended — never the
//!   well-known spelling itself (SDP tokens are compared case-sensitively by the API: `Ext("x")`
//!   and the built-in variant are different values);
//! * `Other` protocol tokens follow RFC 8866 `proto = token *("/" token)`;
//! * host names (`Ip4Fqdn` / `Ip6Fqdn` / candidate `Fqdn`): 1..4 non-empty labels of `[A-Za-z0-9_-]`
//!   joined by `.`, and NEAR MISSES OF ADDRESS LITERALS in the same character class (`near_ip4_literal`:
//!   an octet > 255, three / five numeric labels, a leading zero, a trailing dot, one 32-bit number,
//!   a `0x` octet, a letter behind an octet). The text under a tag is never a literal OF THAT TAG'S OWN
//!   FAMILY (DESIGN 1.2 "host names are not dotted quads": `IN IP4 192.0.2.1` is the value
//!   `IP4(192.0.2.1)`, the API cannot hold it as `IP4FQDN`), and a candidate `Fqdn` is never a literal of
//!   either family. What the API CAN hold — and RFC 8866 allows: `unicast-address = IP4-address /
//!   IP6-address / FQDN / extn-addr`, `FQDN = 4*(alpha-numeric / "-" / ".")` independent of the
//!   address type — is generated: `Ip6Fqdn` whose text is a dotted quad (`IN IP6 192.0.2.1`; the tag is
//!   IP6, the text is no IPv6 literal, so the only value for it is `IP6FQDN`), and, for the two address
//!   kinds whose host characters include `:` (`Ip6Fqdn`, candidate `Fqdn`), near misses of IPv6 literals
//!   (`near_ip6_literal`: seven / nine groups, a five-digit group, a non-hex letter, two `::`, a mapped
//!   tail with an octet > 255) — `extn-addr = non-ws-string`;
//! * REPEATED LIST ELEMENTS (`MediaRepeat`, `SessionRepeat`): every list of the public structs is a
//!   `Vec`, "0..n of each attribute" includes n equal ones. With weight ~1/3 a media section gets one
//!   element of one of its non-empty lists (fmts, bandwidth, rtpmaps, fmtps, candidates, crypto lines,
//!   unknown attributes, the keys / session parameters of a crypto line, the extension pairs of a
//!   candidate) inserted a second time at any position (adjacent or not), either verbatim or — for the
//!   keyed lists — as a NEAR duplicate (a candidate that differs from the original in exactly one of its
//!   ten fields; an rtpmap / fmtp / crypto / bandwidth / attribute that shares only its key with another
//!   element). At session level the same for bandwidth, ice-options, unknown attributes, whole media
//!   sections (an equal section at any position) and one candidate copied into another section;
//! * connection: `num` only together with `ttl` for IP4 (ezk's own unit test
//!   `connection_print_num_without_ttl` documents that `num` without `ttl` is not printed) and never a
//!   `ttl` for IP6 (RFC 8866 5.7);
//! * bandwidth type / attribute names: non-empty RFC 8866 `token`s; an unknown attribute is never
//!   spelled like an attribute the crate parses itself IN THE FORM THE CRATE PARSES IT (DESIGN "Not
//!   asserted"): never a value-less `sendrecv` / `recvonly` / `sendonly` / `inactive` /
//!   `end-of-candidates`, never a valued `rtpmap` / `fmtp` / `rtcp` / `ice-options` / `ice-ufrag` /
//!   `ice-pwd` / `candidate` / `crypto`, never `ice-lite` with or without a value (the crate reads that
//!   one in both forms). The OTHER FORM of such a name is an ordinary unknown attribute the API holds
//!   and is generated (`attr_other_form`): RFC 8866 `attribute = (attribute-name ":" attribute-value) /
//!   attribute-name` — a flag name WITH a value (`a=sendonly:x`, `a=end-of-candidates:1`, also with an
//!   empty value) and a valued name WITHOUT one (`a=rtpmap`, `a=crypto`), at session and at media level;
//! * ice-options tags 1..8 `ice-char`, ufrag 4..256, pwd 22..256 `ice-char`;
//! * rtpmap encoding: non-empty token without `/`; rtpmap params: non-empty, no whitespace;
//! * fmtp params: non-empty, first character not an ASCII blank (DESIGN "Not asserted"); a first
//!   character that is a non-ASCII white-space code point is ordinary `byte-string` content;
//! * crypto: 1..3 keys (never an empty key list, never `FecKey([])`), key text non-empty base64
//!   alphabet, `Ext` suite `[A-Za-z0-9_]+` that is not exactly a well-known suite name, `Ext` session
//!   parameter: visible ASCII, not starting with `-`, not exactly a well-known flag and never a
//!   well-known keyed parameter WITH A VALUE OF ITS GRAMMAR. Freely drawn texts that start with
//!   `KDR=` / `WSH=` / `FEC_ORDER=` / `FEC_KEY=` are renamed; what is generated on purpose
//!   (`param_ext_other_form`) is a well-known NAME in a form that is not the well-known parameter, so
//!   that `Ext` is the only variant able to hold it: `KDR=` / `WSH=` + a NUMERIC LOOK-ALIKE that is not
//!   `1*DIGIT` within u32 (`numeric_lookalike`: empty, signed `+5` / `-5` / `+0`, digits with leading /
//!   trailing junk `5x` `0x10` `5.0` `5e3` `5=6` `5;WSH=64`, values above u32::MAX up to 39 digits),
//!   `FEC_ORDER=` + anything but exactly `FEC_SRTP` / `SRTP_FEC` (empty, other case, extended, a part,
//!   both), `FEC_KEY=` + a text that is no `inline:<base64>[|lifetime][|mki:len]` list (no / other-case
//!   method, no key, trailing `;` or `|`, a third `|` field, signed / overflowing / `2^n>=32` lifetime,
//!   a malformed MKI), a keyed name without `=` (`KDR`, `WSH:5`), a flag followed by `=value`
//!   (`UNENCRYPTED_SRTP=1`);
//! * `Other(protocol)` is never exactly `udp`, `RTP/AVP`, `RTP/SAVP`, `RTP/SAVPF`.

use proptest::collection::vec;
use proptest::option;
use proptest::prelude::*;
use serde::{Deserialize, Serialize};
use std::net::{IpAddr, Ipv4Addr};

// ---------------------------------------------------------------------------------------------
// mirror types
// ---------------------------------------------------------------------------------------------

#[derive(Clone, Debug, PartialEq, Eq, Hash, Serialize, Deserialize)]
pub enum TaggedC {
    Ip4([u8; 4]),
    Ip4Fqdn(String),
    Ip6([u16; 8]),
    Ip6Fqdn(String),
}

#[derive(Clone, Debug, PartialEq, Eq, Hash, Serialize, Deserialize)]
pub enum UntaggedC {
    V4([u8; 4]),
    V6([u16; 8]),
    Fqdn(String),
}

#[derive(Clone, Copy, Debug, PartialEq, Eq, Hash, Serialize, Deserialize)]
pub enum DirC {
    SendRecv,
    RecvOnly,
    SendOnly,
    Inactive,
}

#[derive(Clone, Copy, Debug, PartialEq, Eq, Hash, Serialize, Deserialize)]
pub enum MediaTypeC {
    Audio,
    Video,
    Text,
    App,
}

#[derive(Clone, Debug, PartialEq, Eq, Hash, Serialize, Deserialize)]
pub enum ProtoC {
    Udp,
    RtpAvp,
    RtpSavp,
    RtpSavpf,
    Other(String),
}

#[derive(Clone, Debug, PartialEq, Eq, Hash, Serialize, Deserialize)]
pub enum SuiteC {
    /// index into `refmodel::sdp::SUITE_NAMES`
    Known(u8),
    Ext(String),
}

#[derive(Clone, Debug, PartialEq, Eq, Hash, Serialize, Deserialize)]
pub struct OriginC {
    pub username: String,
    pub session_id: String,
    pub session_version: String,
    pub address: TaggedC,
}

#[derive(Clone, Debug, PartialEq, Eq, Hash, Serialize, Deserialize)]
pub struct ConnC {
    pub address: TaggedC,
    pub ttl: Option<u32>,
    pub num: Option<u32>,
}

#[derive(Clone, Debug, PartialEq, Eq, Hash, Serialize, Deserialize)]
pub struct BwC {
    pub type_: String,
    pub bandwidth: u32,
}

#[derive(Clone, Debug, PartialEq, Eq, Hash, Serialize, Deserialize)]
pub struct AttrC {
    pub name: String,
    pub value: Option<String>,
}

#[derive(Clone, Debug, PartialEq, Eq, Hash, Serialize, Deserialize)]
pub struct RtcpC {
    pub port: u16,
    pub address: Option<TaggedC>,
}

#[derive(Clone, Debug, PartialEq, Eq, Hash, Serialize, Deserialize)]
pub struct RtpMapC {
    pub payload: u32,
    pub encoding: String,
    pub clock_rate: u32,
    pub params: Option<String>,
}

#[derive(Clone, Debug, PartialEq, Eq, Hash, Serialize, Deserialize)]
pub struct FmtpC {
    pub format: u32,
    pub params: String,
}

#[derive(Clone, Debug, PartialEq, Eq, Hash, Serialize, Deserialize)]
pub struct CandC {
    pub foundation: String,
    pub component: u32,
    pub transport: String,
    pub priority: u64,
    pub address: UntaggedC,
    pub port: u16,
    pub typ: String,
    pub rel_addr: Option<UntaggedC>,
    pub rel_port: Option<u16>,
    pub unknown: Vec<(String, String)>,
}

#[derive(Clone, Debug, PartialEq, Eq, Hash, Serialize, Deserialize)]
pub struct KeyC {
    pub key_and_salt: String,
    pub lifetime: Option<u32>,
    pub mki: Option<(u32, u32)>,
}

#[derive(Clone, Debug, PartialEq, Eq, Hash, Serialize, Deserialize)]
pub enum ParamC {
    Kdr(u32),
    UnencryptedSrtp,
    UnencryptedSrtcp,
    UnauthenticatedSrtp,
    FecOrderFecSrtp,
    FecOrderSrtpFec,
    FecKey(Vec<KeyC>),
    Wsh(u32),
    Ext(String),
}

#[derive(Clone, Debug, PartialEq, Eq, Hash, Serialize, Deserialize)]
pub struct CryptoC {
    pub tag: u32,
    pub suite: SuiteC,
    pub keys: Vec<KeyC>,
    pub params: Vec<ParamC>,
}

#[derive(Clone, Debug, PartialEq, Eq, Hash, Serialize, Deserialize)]
pub struct MediaC {
    pub media_type: MediaTypeC,
    pub port: u16,
    pub ports_num: Option<u32>,
    pub proto: ProtoC,
    pub fmts: Vec<u32>,
    pub direction: DirC,
    pub connection: Option<ConnC>,
    pub bandwidth: Vec<BwC>,
    pub rtcp: Option<RtcpC>,
    pub rtpmaps: Vec<RtpMapC>,
    pub fmtps: Vec<FmtpC>,
    pub ice_ufrag: Option<String>,
    pub ice_pwd: Option<String>,
    pub candidates: Vec<CandC>,
    pub end_of_candidates: bool,
    pub crypto: Vec<CryptoC>,
    pub attributes: Vec<AttrC>,
}

#[derive(Clone, Debug, PartialEq, Eq, Hash, Serialize, Deserialize)]
pub struct SdpCase {
    pub origin: OriginC,
    pub name: String,
    pub connection: Option<ConnC>,
    pub bandwidth: Vec<BwC>,
    pub time: (u64, u64),
    pub direction: DirC,
    pub ice_options: Vec<String>,
    pub ice_lite: bool,
    pub ice_ufrag: Option<String>,
    pub ice_pwd: Option<String>,
    pub attributes: Vec<AttrC>,
    pub media: Vec<MediaC>,
}

// ---------------------------------------------------------------------------------------------
// well-known names (written from RFC 8866 / 8839 / 4568 / 7714 / 6188, not read from ezk)
// ---------------------------------------------------------------------------------------------

pub const MEDIA_TYPE_NAMES: [&str; 4] = ["audio", "video", "text", "application"];
pub const PROTO_NAMES: [&str; 4] = ["udp", "RTP/AVP", "RTP/SAVP", "RTP/SAVPF"];
pub const SUITE_NAMES: [&str; 9] = [
    "AES_CM_128_HMAC_SHA1_80",
    "AES_CM_128_HMAC_SHA1_32",
    "F8_128_HMAC_SHA1_80",
    "AES_192_CM_HMAC_SHA1_80",
    "AES_192_CM_HMAC_SHA1_32",
    "AES_256_CM_HMAC_SHA1_80",
    "AES_256_CM_HMAC_SHA1_32",
    "AEAD_AES_128_GCM",
    "AEAD_AES_256_GCM",
];
/// attribute names the crate interprets itself (with or without a value) — an *unknown* attribute
/// is never given one of these names
pub const KNOWN_ATTR_NAMES: [&str; 14] = [
    "rtpmap",
    "fmtp",
    "rtcp",
    "ice-lite",
    "ice-options",
    "ice-ufrag",
    "ice-pwd",
    "candidate",
    "crypto",
    "sendrecv",
    "recvonly",
    "sendonly",
    "inactive",
    "end-of-candidates",
];
/// the known names the crate reads as a value-less flag ...
pub const FLAG_ATTR_NAMES: [&str; 6] = ["sendrecv", "recvonly", "sendonly", "inactive", "end-of-candidates", "ice-lite"];
/// ... and the ones it reads only together with a value. (`ice-lite` with a value used to be read as the flag
/// as well; repaired by fix b44fa0f, see known_findings.txt, so it is an ordinary flag name now.)
pub const VALUED_ATTR_NAMES: [&str; 8] =
    ["rtpmap", "fmtp", "rtcp", "ice-options", "ice-ufrag", "ice-pwd", "candidate", "crypto"];

/// An unknown attribute whose name is a known one in the form the crate does NOT interpret:
/// a flag name with a value, a valued name without one.
pub fn attr_other_form(a: &AttrC) -> Option<&'static str> {
    if a.value.is_some() && FLAG_ATTR_NAMES.contains(&a.name.as_str()) {
        Some("flag-name+value")
    } else if a.value.is_none() && VALUED_ATTR_NAMES.contains(&a.name.as_str()) {
        Some("valued-name-without-value")
    } else {
        None
    }
}

/// the (name, value?) pair is spelled like an attribute the crate interprets itself
pub fn attr_is_interpreted(a: &AttrC) -> bool {
    KNOWN_ATTR_NAMES.contains(&a.name.as_str()) && attr_other_form(a).is_none()
}

/// Keep an unknown attribute outside the interpreted spellings by changing the PRESENCE of its
/// value (used after a near duplicate took over another element's name): a flag name gets an empty
/// value, a valued name loses its value; `ice-lite` (both forms interpreted) is renamed.
pub fn keep_attr_unknown(a: &mut AttrC) {
    if !attr_is_interpreted(a) {
        return;
    }
    if FLAG_ATTR_NAMES.contains(&a.name.as_str()) {
        a.value = Some(String::new());
    } else if VALUED_ATTR_NAMES.contains(&a.name.as_str()) {
        a.value = None;
    } else {
        a.name.push_str("-x");
    }
}

pub const PARAM_FLAGS: [&str; 3] = ["UNENCRYPTED_SRTP", "UNENCRYPTED_SRTCP", "UNAUTHENTICATED_SRTP"];
const PARAM_KEYED: [&str; 4] = ["KDR=", "FEC_ORDER=", "FEC_KEY=", "WSH="];
/// (name, a value that is valid for the well-known parameter of that name)
const PARAM_KEYED_SAMPLES: [(&str, &str); 6] = [
    ("KDR=", "5"),
    ("KDR=", "24"),
    ("WSH=", "64"),
    ("FEC_ORDER=", "FEC_SRTP"),
    ("FEC_ORDER=", "SRTP_FEC"),
    ("FEC_KEY=", "inline:QUJDREVGR0g="),
];
/// candidate extension keys the crate interprets itself, and the literal in front of the type
pub const CAND_KEYWORDS: [&str; 3] = ["raddr", "rport", "typ"];

// ---------------------------------------------------------------------------------------------
// leaf strategies
// ---------------------------------------------------------------------------------------------

pub fn edge_u16() -> BoxedStrategy<u16> {
    prop_oneof![
        4 => any::<u16>(),
        2 => 0u16..1100,
        1 => Just(0u16),
        1 => Just(u16::MAX),
    ]
    .boxed()
}

pub fn edge_u32() -> BoxedStrategy<u32> {
    prop_oneof![
        4 => any::<u32>(),
        3 => 0u32..130,
        1 => Just(0u32),
        1 => Just(u32::MAX),
        1 => (0u32..32).prop_map(|k| 1u32 << k),
        1 => Just(u16::MAX as u32 + 1),
    ]
    .boxed()
}

pub fn edge_u64() -> BoxedStrategy<u64> {
    prop_oneof![
        4 => any::<u64>(),
        3 => 0u64..4_000_000_000,
        1 => Just(0u64),
        1 => Just(u64::MAX),
        1 => Just(u32::MAX as u64 + 1),
    ]
    .boxed()
}

/// Code points >= U+0080 that Unicode classifies as white space (the first 19: everything with the
/// `White_Space` property outside ASCII) or that render as nothing (the last 5). None of them is
/// ASCII white space, the only separator of SDP fields; inside a `non-ws-string` they are token
/// content.
pub const EXOTIC_TOKEN_CHARS: [char; 24] = [
    '\u{85}', '\u{a0}', '\u{1680}', '\u{2000}', '\u{2001}', '\u{2002}', '\u{2003}', '\u{2004}', '\u{2005}',
    '\u{2006}', '\u{2007}', '\u{2008}', '\u{2009}', '\u{200a}', '\u{2028}', '\u{2029}', '\u{202f}', '\u{205f}',
    '\u{3000}', '\u{ad}', '\u{180e}', '\u{200b}', '\u{2060}', '\u{feff}',
];

/// a code point that is white space for Unicode but not for ASCII
pub fn is_unicode_only_ws(c: char) -> bool {
    !c.is_ascii() && c.is_whitespace()
}

fn exotic_char() -> BoxedStrategy<char> {
    prop::sample::select(EXOTIC_TOKEN_CHARS.to_vec()).boxed()
}

/// a token with 1..2 exotic code points: leading, embedded, trailing, or nothing else at all
fn exotic_token() -> BoxedStrategy<String> {
    (
        "[A-Za-z0-9]{0,4}",
        exotic_char(),
        "[!-~]{0,4}",
        option::weighted(0.3, exotic_char()),
        "[A-Za-z0-9é]{0,3}",
    )
        .prop_map(|(a, x, b, y, c)| {
            let mut s = a;
            s.push(x);
            s.push_str(&b);
            if let Some(y) = y {
                s.push(y);
            }
            s.push_str(&c);
            s
        })
        .boxed()
}

/// non-empty text without ASCII whitespace
fn nonws() -> BoxedStrategy<String> {
    prop_oneof![
        6 => "[A-Za-z0-9]{1,10}",
        3 => "[!-~]{1,12}",
        1 => "[!-~¡-ÿ一-丠😀-😏]{1,6}",
        2 => exotic_token(),
    ]
    .boxed()
}

/// Near misses of a well-known token `k` (never `k` itself unless `k` has no letters and the
/// caller's own guard applies): `mode` 0 lower case, 1 upper case, 2 every letter's case swapped,
/// 3 one letter (chosen by `sel`) flipped, 4 first letter upper / rest lower, 5 proper non-empty
/// prefix, 6 proper non-empty suffix. Characters are only re-cased or removed, so the result stays
/// inside whatever character class `k` is in.
pub fn near_miss_of(k: &str, mode: u8, sel: u16) -> String {
    use crate::engine::pick_idx;
    let chars: Vec<char> = k.chars().collect();
    let swap = |c: char| if c.is_ascii_lowercase() { c.to_ascii_uppercase() } else { c.to_ascii_lowercase() };
    let out: String = match mode % 7 {
        0 => k.to_ascii_lowercase(),
        1 => k.to_ascii_uppercase(),
        2 => chars.iter().map(|c| swap(*c)).collect(),
        3 => {
            let letters: Vec<usize> = (0..chars.len()).filter(|i| chars[*i].is_ascii_alphabetic()).collect();
            let mut v = chars.clone();
            if !letters.is_empty() {
                let i = letters[pick_idx(sel, letters.len())];
                v[i] = swap(v[i]);
            }
            v.into_iter().collect()
        }
        4 => {
            let mut first = true;
            chars
                .iter()
                .map(|c| {
                    if c.is_ascii_alphabetic() && first {
                        first = false;
                        c.to_ascii_uppercase()
                    } else {
                        c.to_ascii_lowercase()
                    }
                })
                .collect()
        }
        5 if chars.len() >= 2 => chars[..1 + pick_idx(sel, chars.len() - 1)].iter().collect(),
        6 if chars.len() >= 2 => chars[1 + pick_idx(sel, chars.len() - 1)..].iter().collect(),
        _ => k.to_string(),
    };
    if out == k {
        // lower(k) == k (e.g. "udp") or upper(k) == k: take the opposite case
        let o: String = chars.iter().map(|c| swap(*c)).collect();
        return o;
    }
    out
}

fn near_miss(names: &'static [&'static str]) -> BoxedStrategy<String> {
    (prop::sample::select(names.to_vec()), 0u8..7, any::<u16>())
        .prop_map(|(k, mode, sel)| near_miss_of(k, mode, sel))
        .boxed()
}

/// how `s` relates to the well-known tokens `names` (class labels / non-trivial accounting)
pub fn near_miss_kind(s: &str, names: &[&str]) -> Option<&'static str> {
    if names.contains(&s) {
        return None;
    }
    if names.iter().any(|k| s.eq_ignore_ascii_case(k)) {
        Some("case-variant")
    } else if names.iter().any(|k| s.starts_with(k)) {
        Some("extending-wellknown")
    } else if s.len() >= 2 && names.iter().any(|k| k.starts_with(s) || k.ends_with(s)) {
        Some("part-of-wellknown")
    } else {
        None
    }
}

fn is_ip_literal(s: &str) -> bool {
    s.parse::<IpAddr>().is_ok() || s.parse::<Ipv4Addr>().is_ok()
}

fn hostname() -> BoxedStrategy<String> {
    (
        vec(
            prop_oneof![3 => "[a-z][a-z0-9-]{0,7}", 1 => "[A-Za-z0-9_-]{1,8}"],
            1..=4,
        ),
        prop::bool::weighted(0.1),
    )
        .prop_map(|(labels, dot)| {
            let mut s = labels.join(".");
            if dot {
                s.push('.');
            }
            // by construction never an IP literal (e.g. four all-digit labels)
            if is_ip_literal(&s) {
                s.insert(0, 'h');
            }
            s
        })
        .boxed()
}

/// Texts of `[A-Za-z0-9.x-]` that resemble an IPv4 literal and are none (std's strict parser — not
/// part of the code under test — is the judge; whatever it accepts gets a letter appended).
fn near_ip4_literal() -> BoxedStrategy<String> {
    (
        ip4(),
        0u8..9,
        any::<u16>(),
        prop::sample::select(vec![256u32, 260, 299, 300, 999, 1000, 65536, 4294967295]),
    )
        .prop_map(|(b, mode, sel, big)| {
            use crate::engine::pick_idx;
            let mut labels: Vec<String> = b.iter().map(|o| o.to_string()).collect();
            let i = pick_idx(sel, 4);
            let mut tail = "";
            match mode {
                // an octet out of range
                0 => labels[i] = big.to_string(),
                // three / five numeric labels
                1 => {
                    labels.pop();
                }
                2 => labels.push((sel % 256).to_string()),
                // a leading zero (octal in inet_aton, rejected by RFC 6943 strict parsers)
                3 => labels[i] = format!("0{}", labels[i]),
                // rooted
                4 => tail = ".",
                // a letter behind an octet
                5 => labels[i].push(if sel & 1 == 0 { 'a' } else { 'X' }),
                // the address as one 32-bit number
                6 => labels = vec![u32::from_be_bytes(b).to_string()],
                // inet_aton hex octet
                7 => labels[i] = format!("0x{:x}", b[i]),
                // an empty label inside
                _ => labels[i] = String::new(),
            }
            let mut s = labels.join(".");
            s.push_str(tail);
            if s.is_empty() || is_ip_literal(&s) {
                s.push('x');
            }
            s
        })
        .boxed()
}

/// Texts of `[0-9a-fg.:]` that resemble an IPv6 literal and are none
fn near_ip6_literal() -> BoxedStrategy<String> {
    (ip6(), 0u8..7, any::<u16>())
        .prop_map(|(a, mode, sel)| {
            use crate::engine::pick_idx;
            let mut groups: Vec<String> = a.iter().map(|g| format!("{g:x}")).collect();
            let i = pick_idx(sel, 8);
            let s = match mode {
                // nine / seven groups
                0 => {
                    groups.push(format!("{:x}", sel));
                    groups.join(":")
                }
                1 => {
                    groups.pop();
                    groups.join(":")
                }
                // a group of five hex digits
                2 => {
                    groups[i] = format!("1{:04x}", a[i]);
                    groups.join(":")
                }
                // a letter that is no hex digit
                3 => {
                    groups[i] = format!("g{:x}", a[i] & 0xfff);
                    groups.join(":")
                }
                // two compressions
                4 => format!("{}::{}::{}", groups[0], groups[1], groups[2]),
                // three colons
                5 => format!(":::{}", groups[7]),
                // IPv4-mapped tail with an octet out of range
                _ => format!("::ffff:{}.{}.{}.256", a[0] & 0xff, a[1] & 0xff, a[2] & 0xff),
            };
            if is_ip_literal(&s) {
                format!("{s}x")
            } else {
                s
            }
        })
        .boxed()
}

fn ip4_literal_text() -> BoxedStrategy<String> {
    ip4().prop_map(|b| Ipv4Addr::new(b[0], b[1], b[2], b[3]).to_string()).boxed()
}

/// what a host name held in an FQDN variant looks like (class labels / non-trivial accounting)
pub fn host_shape(h: &str) -> Option<&'static str> {
    if h.parse::<Ipv4Addr>().is_ok() {
        Some("ip4-literal")
    } else if h.contains(':') {
        Some("near-ip6-literal")
    } else if h.chars().next().map_or(false, |c| c.is_ascii_digit())
        && h.chars().all(|c| c.is_ascii_alphanumeric() || c == '.')
        && h.chars().filter(|c| c.is_ascii_digit()).count() * 2 > h.len()
    {
        Some("near-ip4-literal")
    } else {
        None
    }
}

fn ip4() -> BoxedStrategy<[u8; 4]> {
    prop_oneof![
        3 => any::<[u8; 4]>(),
        1 => Just([0, 0, 0, 0]),
        1 => Just([255, 255, 255, 255]),
        1 => Just([224, 2, 17, 12]),
    ]
    .boxed()
}

fn ip6() -> BoxedStrategy<[u16; 8]> {
    prop_oneof![
        3 => any::<[u16; 8]>(),
        // sparse: runs of zeros exercise `::` compression
        3 => vec(prop_oneof![2 => Just(0u16), 1 => any::<u16>()], 8).prop_map(|v| {
            let mut a = [0u16; 8];
            a.copy_from_slice(&v);
            a
        }),
        1 => Just([0u16; 8]),
        1 => Just([0, 0, 0, 0, 0, 0, 0, 1]),
        // IPv4-mapped / compatible (std prints a dotted tail)
        1 => any::<[u8; 4]>().prop_map(|b| [0, 0, 0, 0, 0, 0xffff, u16::from_be_bytes([b[0], b[1]]), u16::from_be_bytes([b[2], b[3]])]),
        1 => Just([0xff15, 0, 0, 0, 0, 0, 0, 0x101]),
    ]
    .boxed()
}

pub fn tagged() -> BoxedStrategy<TaggedC> {
    prop_oneof![
        3 => ip4().prop_map(TaggedC::Ip4),
        2 => ip6().prop_map(TaggedC::Ip6),
        // never an IPv4 literal (that is the value `Ip4`), `:` is no host character under IP4
        1 => prop_oneof![3 => hostname(), 1 => near_ip4_literal()].prop_map(TaggedC::Ip4Fqdn),
        // never an IPv6 literal (that is the value `Ip6`); a dotted quad under the IP6 tag is a name
        2 => prop_oneof![4 => hostname(), 2 => near_ip4_literal(), 3 => ip4_literal_text(), 1 => near_ip6_literal()]
            .prop_map(TaggedC::Ip6Fqdn),
    ]
    .boxed()
}

fn untagged() -> BoxedStrategy<UntaggedC> {
    prop_oneof![
        3 => ip4().prop_map(UntaggedC::V4),
        2 => ip6().prop_map(UntaggedC::V6),
        // never a literal of either family (that is the value `V4` / `V6`)
        2 => prop_oneof![6 => hostname(), 2 => near_ip4_literal(), 1 => near_ip6_literal()].prop_map(UntaggedC::Fqdn),
    ]
    .boxed()
}

fn conn() -> BoxedStrategy<ConnC> {
    (tagged(), option::of(edge_u32()), option::of(edge_u32()))
        .prop_map(|(address, ttl, num)| match address {
            // num only together with ttl (see module doc)
            TaggedC::Ip4(_) | TaggedC::Ip4Fqdn(_) => ConnC {
                num: if ttl.is_some() { num } else { None },
                ttl,
                address,
            },
            // IP6: never a ttl
            TaggedC::Ip6(_) | TaggedC::Ip6Fqdn(_) => ConnC {
                address,
                ttl: None,
                num,
            },
        })
        .boxed()
}

fn bw() -> BoxedStrategy<BwC> {
    (
        prop_oneof![
            3 => prop::sample::select(vec!["AS", "CT", "TIAS", "RS", "RR"]).prop_map(String::from),
            1 => "X-[a-z0-9]{1,6}",
            // RFC 8866 token-char
            1 => "[!#-'*+\\-.0-9A-Z^-~]{1,8}",
        ],
        edge_u32(),
    )
        .prop_map(|(type_, bandwidth)| BwC { type_, bandwidth })
        .boxed()
}

fn dir() -> BoxedStrategy<DirC> {
    prop_oneof![
        Just(DirC::SendRecv),
        Just(DirC::RecvOnly),
        Just(DirC::SendOnly),
        Just(DirC::Inactive),
    ]
    .boxed()
}

fn line_text(max: usize) -> BoxedStrategy<String> {
    // any text without CR/LF
    prop_oneof![
        4 => proptest::string::string_regex(&format!("[ -~]{{0,{max}}}")).unwrap(),
        1 => proptest::string::string_regex(&format!("[^\r\n]{{0,{}}}", max / 2)).unwrap(),
        // non-ASCII white space at the edges (a parser that trims must trim ASCII blanks at most)
        1 => (option::of(exotic_char()), "[ -~]{0,6}", option::of(exotic_char())).prop_map(|(x, mid, y)| {
            let mut s = String::new();
            if let Some(x) = x {
                s.push(x);
            }
            s.push_str(&mid);
            if let Some(y) = y {
                s.push(y);
            }
            s
        }),
    ]
    .boxed()
}

fn attr() -> BoxedStrategy<AttrC> {
    let name = prop_oneof![
        5 => "[a-z][a-z0-9-]{0,10}",
        1 => "[!#-'*+\\-.0-9A-Z^-~]{1,8}",
        // names that merely *extend* / resemble a known one are ordinary unknown attributes
        2 => (prop::sample::select(KNOWN_ATTR_NAMES.to_vec()), "[a-z0-9-]{1,3}")
            .prop_map(|(k, s)| format!("{k}{s}")),
        // ... or are spelled in another letter case / are a part of one (attribute names are
        // case-sensitive tokens, `a=SendRecv` is not a direction)
        2 => near_miss(&KNOWN_ATTR_NAMES),
        1 => prop::sample::select(vec!["mid", "rtcp-mux", "ssrc", "setup", "fingerprint", "rtcp-fb", "ptime", "x-rtpmap"]).prop_map(String::from),
    ]
    .prop_map(|mut n: String| {
        // never named exactly like an attribute the crate interprets itself
        if KNOWN_ATTR_NAMES.contains(&n.as_str()) {
            n.push_str("-x");
        }
        n
    });
    let regular = (name, option::weighted(0.7, line_text(20))).prop_map(|(name, value)| AttrC { name, value });
    // a known name in the form the crate does not interpret (see module doc): flag name + value
    // (empty value included), valued name without a value
    let other_form = prop_oneof![
        3 => (
            prop::sample::select(FLAG_ATTR_NAMES.to_vec()),
            prop_oneof![1 => Just(String::new()), 2 => "[a-z0-9]{1,4}", 3 => line_text(12)],
        )
            .prop_map(|(n, v)| AttrC { name: n.to_string(), value: Some(v) }),
        2 => prop::sample::select(VALUED_ATTR_NAMES.to_vec()).prop_map(|n| AttrC { name: n.to_string(), value: None }),
    ];
    prop_oneof![7 => regular, 1 => other_form]
        .prop_map(|mut a| {
            keep_attr_unknown(&mut a);
            a
        })
        .boxed()
}

fn ice_chars(min: usize, max: usize) -> BoxedStrategy<String> {
    proptest::string::string_regex(&format!("[A-Za-z0-9+/]{{{min},{max}}}"))
        .unwrap()
        .boxed()
}

fn ufrag() -> BoxedStrategy<String> {
    prop_oneof![6 => ice_chars(4, 12), 1 => ice_chars(4, 4), 1 => ice_chars(256, 256), 1 => ice_chars(200, 256)].boxed()
}

fn pwd() -> BoxedStrategy<String> {
    prop_oneof![6 => ice_chars(22, 32), 1 => ice_chars(22, 22), 1 => ice_chars(256, 256), 1 => ice_chars(200, 256)].boxed()
}

fn media_type() -> BoxedStrategy<MediaTypeC> {
    prop_oneof![
        Just(MediaTypeC::Audio),
        Just(MediaTypeC::Video),
        Just(MediaTypeC::Text),
        Just(MediaTypeC::App),
    ]
    .boxed()
}

/// `Other` tokens that extend / resemble a well-known protocol token
pub const PROTO_EXTENDING: [&str; 12] = [
    "RTP/AVPF",
    "RTP/SAVPFX",
    "udptl",
    "UDP/TLS/RTP/SAVPF",
    "UDP/TLS/RTP/SAVP",
    "RTP/AVP/x",
    "RTP/SAVP_",
    "udp4",
    "UDP",
    "rtp/avp",
    "TCP/MSRP",
    "RTP/SAVPF/1",
];

/// `Other(token)`, never exactly a well-known token (`RTP/SAVP` + `F` is `RTP/SAVPF`)
fn other_proto(mut s: String) -> ProtoC {
    if PROTO_NAMES.contains(&s.as_str()) {
        s.push('x');
    }
    ProtoC::Other(s)
}

fn ext_suite(mut s: String) -> SuiteC {
    if SUITE_NAMES.contains(&s.as_str()) {
        s.push_str("_X");
    }
    SuiteC::Ext(s)
}

fn proto() -> BoxedStrategy<ProtoC> {
    prop_oneof![
        1 => Just(ProtoC::Udp),
        3 => Just(ProtoC::RtpAvp),
        2 => Just(ProtoC::RtpSavp),
        3 => Just(ProtoC::RtpSavpf),
        3 => prop::sample::select(PROTO_EXTENDING.to_vec()).prop_map(|s| ProtoC::Other(s.to_string())),
        // RFC 8866: proto = token *("/" token) — a token never starts with '/' (`m=audio 0 /0` would
        // read "/0" as the number of ports), so suffixes and free tokens are built from that grammar
        1 => (
            prop::sample::select(PROTO_NAMES.to_vec()),
            prop_oneof!["[A-Za-z0-9_]{1,3}", "/[A-Za-z0-9]{1,3}", "[A-Za-z0-9_]/[A-Za-z0-9]"],
        )
            .prop_map(|(k, s)| other_proto(format!("{k}{s}"))),
        1 => vec(prop_oneof![3 => "[A-Za-z0-9_.-]{1,6}", 1 => "[!#-'*+\\-.0-9A-Z^-~]{1,6}"], 1..=4)
            .prop_map(|t| other_proto(t.join("/"))),
        // a well-known token in another letter case, or a part of one; parts are cut back to the
        // proto grammar (no leading / trailing '/')
        2 => near_miss(&PROTO_NAMES).prop_map(|s| {
            let t = s.trim_matches('/');
            other_proto(if t.is_empty() { "x".to_string() } else { t.to_string() })
        }),
    ]
    .boxed()
}

fn suite() -> BoxedStrategy<SuiteC> {
    prop_oneof![
        6 => (0u8..SUITE_NAMES.len() as u8).prop_map(SuiteC::Known),
        2 => (0usize..SUITE_NAMES.len(), "[A-Za-z0-9_]{1,3}")
            .prop_map(|(i, s)| ext_suite(format!("{}{}", SUITE_NAMES[i], s))),
        1 => "[A-Za-z0-9_]{1,16}".prop_map(ext_suite),
        // a well-known suite name in another letter case, or a part of one
        2 => near_miss(&SUITE_NAMES).prop_map(ext_suite),
    ]
    .boxed()
}

fn lifetime() -> BoxedStrategy<Option<u32>> {
    prop_oneof![
        3 => Just(None),
        // plain
        3 => edge_u32().prop_map(Some),
        // power of two (printed as 2^n), every exponent a u32 can hold
        3 => (0u32..32).prop_map(|k| Some(1u32 << k)),
    ]
    .boxed()
}

fn key() -> BoxedStrategy<KeyC> {
    (
        prop_oneof![4 => "[A-Za-z0-9+/]{1,44}={0,2}", 1 => "[A-Za-z0-9+/=]{1,8}"],
        lifetime(),
        option::weighted(0.4, (edge_u32(), edge_u32())),
    )
        .prop_map(|(key_and_salt, lifetime, mki)| KeyC {
            key_and_salt,
            lifetime,
            mki,
        })
        .boxed()
}

/// `1*DIGIT` whose value a u32 can hold: exactly the texts that ARE the number of a `KDR=` / `WSH=`
/// parameter (leading zeros included)
pub fn is_u32_decimal(s: &str) -> bool {
    if s.is_empty() || !s.bytes().all(|b| b.is_ascii_digit()) {
        return false;
    }
    let t = s.trim_start_matches('0');
    t.is_empty() || (t.len() <= 10 && t.parse::<u64>().map_or(false, |v| v <= u32::MAX as u64))
}

/// Visible-ASCII texts that look like a number but are not `1*DIGIT` within u32: what a lenient
/// integer conversion (sign, radix prefix, separators, wrap-around, saturation) might still accept.
fn numeric_lookalike() -> BoxedStrategy<String> {
    let digits = || {
        prop_oneof![
            3 => "[0-9]{1,3}",
            2 => edge_u32().prop_map(|v| v.to_string()),
            1 => "0[0-9]{1,3}",
        ]
    };
    prop_oneof![
        1 => Just(String::new()),
        // a sign: accepted by `FromStr for u32` ('+'), not by 1*DIGIT
        5 => ("[+-]", digits()).prop_map(|(s, d)| format!("{s}{d}")),
        1 => prop::sample::select(vec!["+", "-", "++5", "+-5", "+ 5"]).prop_map(|s| s.replace(' ', "_")),
        // digits followed / preceded by something else
        3 => (digits(), prop::sample::select(vec!["x", "_", "e3", ".0", "=6", ",6", ";WSH=64", "|", "+", "%", "u32", "_000"]))
            .prop_map(|(d, j)| format!("{d}{j}")),
        2 => (prop::sample::select(vec!["x", "0x", "0b", "#", ".", "=", "_", "2^"]), digits()).prop_map(|(j, d)| format!("{j}{d}")),
        // above u32::MAX
        3 => prop_oneof![
            3 => prop::sample::select(vec![
                "4294967296",
                "4294967300",
                "9999999999",
                "04294967296",
                "18446744073709551615",
                "18446744073709551616",
                "340282366920938463463374607431768211456",
            ])
            .prop_map(String::from),
            2 => "[1-9][0-9]{10,24}",
            1 => (4_294_967_296u64..=4_294_967_296 + 70_000).prop_map(|v| v.to_string()),
        ],
        1 => "[!-~]{1,6}",
    ]
    .prop_map(|mut s: String| {
        if is_u32_decimal(&s) {
            s.push('x');
        }
        s
    })
    .boxed()
}

/// texts behind `FEC_KEY=` that are no list of `inline:<base64>[|lifetime][|mki:len]` (RFC 4568 9.2
/// `key-params` restricted to the `inline` method, the only one `FecKey` can hold)
fn non_key_params() -> BoxedStrategy<String> {
    let b64 = || "[A-Za-z0-9+/]{1,12}={0,2}";
    prop_oneof![
        1 => prop::sample::select(vec!["", "inline", "inline:", ":", ";", "inline:;", "inline:|5"]).prop_map(String::from),
        // no method, a method that is not (byte for byte) `inline`, another separator
        2 => (prop::sample::select(vec!["", "INLINE:", "Inline:", "inlin:", "inline;", "inline=", "inline::", "x:"]), b64())
            .prop_map(|(m, k)| format!("{m}{k}")),
        // a well-formed first key followed by something that is not the rest of a key list
        6 => (
            b64(),
            prop::sample::select(vec![
                ";", ";x", ";inline", ";inline:", ";;", "|", "|x", "|2^", "|2^x", "|2^32", "|2^99", "|+5", "|-5", "|2^+5",
                "|4294967296", "|5|", "|5|6", "|1:", "|:4", "|1:2:3", "|1:+4", "|1:4|5", "|5|1:4|9", "|5|1:4;", "|5|1:4294967296",
                "|2^31|2^3", "*", ",", "|5;inline", "|1:4;INLINE:QUJD",
            ]),
        )
            .prop_map(|(k, t)| format!("inline:{k}{t}")),
    ]
    .boxed()
}

/// `Ext` session parameters that carry a well-known NAME in a form that is not the well-known
/// parameter (module doc). By construction none of them is a text the grammar of the well-known
/// parameter covers, so `Ext` is the only variant that can hold them.
fn param_ext_other_form() -> BoxedStrategy<String> {
    prop_oneof![
        6 => (prop::sample::select(vec!["KDR=", "WSH="]), numeric_lookalike()).prop_map(|(k, v)| format!("{k}{v}")),
        2 => prop_oneof![
            3 => prop::sample::select(vec![
                "", "FEC_SRTP2", "SRTP_FECX", "fec_srtp", "srtp_fec", "FEC", "SRTP", "FEC_SRT", "RTP_FEC", "FEC_SRTP,SRTP_FEC",
                "FEC_SRTP=1", "FEC_SRTPSRTP_FEC", "SRTP_FEC;", "FEC_SRTP|SRTP_FEC", "+FEC_SRTP",
            ])
            .prop_map(String::from),
            1 => (prop::sample::select(vec!["FEC_SRTP", "SRTP_FEC"]), 0u8..7, any::<u16>()).prop_map(|(k, m, sel)| near_miss_of(k, m, sel)),
            1 => "[!-~]{1,8}",
        ]
        .prop_map(|mut v: String| {
            if v == "FEC_SRTP" || v == "SRTP_FEC" {
                v.push('_');
            }
            format!("FEC_ORDER={v}")
        }),
        3 => non_key_params().prop_map(|v| format!("FEC_KEY={v}")),
        // the keyed names without their '='
        1 => (
            prop::sample::select(vec!["KDR", "WSH", "FEC_ORDER", "FEC_KEY"]),
            prop::sample::select(vec!["", ":5", "5", "-5", ":", ":FEC_SRTP", ":inline:QUJD"]),
        )
            .prop_map(|(k, t)| format!("{k}{t}")),
        // a flag that is given a value
        1 => (prop::sample::select(PARAM_FLAGS.to_vec()), "=[A-Za-z0-9]{0,3}").prop_map(|(k, v)| format!("{k}{v}")),
    ]
    .boxed()
}

/// which other-form shape (if any) an `Ext` session parameter is — class labels and failure loci
pub fn param_ext_form(s: &str) -> Option<&'static str> {
    for k in ["KDR=", "WSH="] {
        if let Some(v) = s.strip_prefix(k) {
            let unsigned = v.strip_prefix(['+', '-']).unwrap_or(v);
            return Some(if v.len() != unsigned.len() && is_u32_decimal(unsigned) {
                "keyed-name+signed-number"
            } else if !v.is_empty() && v.bytes().all(|b| b.is_ascii_digit()) {
                "keyed-name+number-above-u32"
            } else {
                "keyed-name+non-number"
            });
        }
    }
    if s.starts_with("FEC_ORDER=") {
        return Some("FEC_ORDER+other-value");
    }
    if s.starts_with("FEC_KEY=") {
        return Some("FEC_KEY+non-key-params");
    }
    let bare = |r: &str| r.is_empty() || r.starts_with([':', '-']) || r.starts_with(|c: char| c.is_ascii_digit());
    if ["KDR", "WSH", "FEC_ORDER", "FEC_KEY"].iter().any(|k| s.strip_prefix(k).map_or(false, bare)) {
        return Some("keyed-name-without-=");
    }
    if PARAM_FLAGS.iter().any(|k| s.strip_prefix(k).map_or(false, |r| r.starts_with('='))) {
        return Some("flag-name+=value");
    }
    None
}

fn param() -> BoxedStrategy<ParamC> {
    prop_oneof![
        2 => edge_u32().prop_map(ParamC::Kdr),
        1 => Just(ParamC::UnencryptedSrtp),
        1 => Just(ParamC::UnencryptedSrtcp),
        1 => Just(ParamC::UnauthenticatedSrtp),
        1 => Just(ParamC::FecOrderFecSrtp),
        1 => Just(ParamC::FecOrderSrtpFec),
        2 => vec(key(), 1..=2).prop_map(ParamC::FecKey),
        2 => edge_u32().prop_map(ParamC::Wsh),
        2 => prop_oneof![
            3 => "[A-Za-z][A-Za-z0-9_]{0,8}(=[A-Za-z0-9]{1,5})?",
            2 => "[!-~]{1,10}",
            // an extension whose name merely extends a well-known flag (RFC 4568 9.2:
            // srtp-session-extension = ["-"] 1*VCHAR, parameters are separated by blanks)
            1 => (prop::sample::select(PARAM_FLAGS.to_vec()), "[A-Z0-9_]{1,3}").prop_map(|(k, s)| format!("{k}{s}")),
            // a well-known flag in another letter case / a part of one
            1 => near_miss(&PARAM_FLAGS),
            // a well-known keyed parameter whose name is in another letter case (modes 0..=4 only:
            // a part of the name is just some extension)
            1 => (prop::sample::select(PARAM_KEYED_SAMPLES.to_vec()), 0u8..5, any::<u16>()).prop_map(|((k, v), mode, sel)| {
                format!("{}{v}", near_miss_of(k, mode, sel))
            }),
        ]
        .prop_map(|mut s: String| {
            // not a (malformed) well-known parameter and no leading '-'
            if s.starts_with('-') {
                s.replace_range(0..1, "x");
            }
            if PARAM_KEYED.iter().any(|p| s.starts_with(p)) || PARAM_FLAGS.contains(&s.as_str()) {
                s.insert(0, 'X');
            }
            ParamC::Ext(s)
        }),
        // a well-known name in a form only `Ext` can hold (sound by construction, no guard)
        1 => param_ext_other_form().prop_map(ParamC::Ext),
    ]
    .boxed()
}

fn crypto() -> BoxedStrategy<CryptoC> {
    (edge_u32(), suite(), vec(key(), 1..=3), vec(param(), 0..=4))
        .prop_map(|(tag, suite, keys, params)| CryptoC {
            tag,
            suite,
            keys,
            params,
        })
        .boxed()
}

fn candidate() -> BoxedStrategy<CandC> {
    let transport = prop_oneof![
        4 => prop::sample::select(vec!["UDP", "TCP", "udp", "tcp"]).prop_map(String::from),
        1 => nonws(),
    ];
    let typ = prop_oneof![
        4 => prop::sample::select(vec!["host", "srflx", "prflx", "relay"]).prop_map(String::from),
        1 => nonws(),
    ];
    let ext_key = prop_oneof![
        3 => prop::sample::select(vec!["tcptype", "generation", "ufrag", "network-id", "network-cost", "raddrx", "rport2", "typ"]).prop_map(String::from),
        1 => nonws(),
        // the crate's own keys in another letter case / a part of one
        1 => near_miss(&CAND_KEYWORDS),
    ]
    .prop_map(|mut k: String| {
        // raddr / rport are the crate's own keys
        if k == "raddr" || k == "rport" {
            k.push('x');
        }
        k
    });
    (
        (ice_chars(1, 32), edge_u32(), transport, edge_u64(), untagged(), edge_u16(), typ),
        option::weighted(0.4, untagged()),
        option::weighted(0.4, edge_u16()),
        vec((ext_key, nonws()), 0..=3),
    )
        .prop_map(
            |((foundation, component, transport, priority, address, port, typ), rel_addr, rel_port, unknown)| CandC {
                foundation,
                component,
                transport,
                priority,
                address,
                port,
                typ,
                rel_addr,
                rel_port,
                unknown,
            },
        )
        .boxed()
}

fn rtpmap() -> BoxedStrategy<RtpMapC> {
    (
        edge_u32(),
        prop_oneof![
            3 => prop::sample::select(vec!["PCMU", "PCMA", "opus", "telephone-event", "H264", "VP8", "G722"]).prop_map(String::from),
            1 => "[A-Za-z0-9._-]{1,10}",
            1 => "[!#-'*+\\-.0-9A-Z^-~]{1,8}",
        ],
        edge_u32(),
        option::weighted(0.4, prop_oneof![3 => "[1-9][0-9]{0,2}", 1 => "[!-~]{1,8}"]),
    )
        .prop_map(|(payload, encoding, clock_rate, params)| RtpMapC {
            payload,
            encoding,
            clock_rate,
            params,
        })
        .boxed()
}

fn fmtp() -> BoxedStrategy<FmtpC> {
    (
        edge_u32(),
        prop_oneof![
            3 => "[a-z-]{1,10}=[a-z0-9]{1,6}(;[a-z-]{1,8}=[0-9]{1,4}){0,2}",
            2 => "[!-~][ -~]{0,20}",
            1 => "[!-~¡-ÿ][^\r\n]{0,8}",
            // first / last character a non-ASCII white-space code point
            1 => (exotic_char(), "[ -~]{0,8}", option::of(exotic_char())).prop_map(|(x, mid, y)| {
                let mut s = String::from(x);
                s.push_str(&mid);
                if let Some(y) = y {
                    s.push(y);
                }
                s
            }),
        ],
    )
        .prop_map(|(format, params)| FmtpC { format, params })
        .boxed()
}

fn rtcp() -> BoxedStrategy<RtcpC> {
    (edge_u16(), option::weighted(0.5, tagged()))
        .prop_map(|(port, address)| RtcpC { port, address })
        .boxed()
}

/// One repetition inside a media section: an element of one of the section's non-empty lists is
/// inserted a second time. Selectors are mapped with `pick_idx`; an op that finds no non-empty list
/// leaves the section as it is.
#[derive(Clone, Debug)]
pub struct MediaRepeat {
    /// which of the non-empty lists
    pub list: u16,
    /// which element is copied, where the copy is inserted (0..=len: adjacent or not)
    pub from: u16,
    pub to: u16,
    /// verbatim copy, or a near duplicate (see `repeat_in_media`)
    pub exact: bool,
    /// near duplicate: which element the differing part is taken from / which candidate field differs
    pub other: u16,
    pub field: u8,
    /// near duplicate of a candidate: the source of the one differing field
    pub spare: CandC,
}

fn insert_copy<T: Clone>(v: &mut Vec<T>, from: u16, to: u16, near: impl FnOnce(&mut T, &[T])) {
    use crate::engine::pick_idx;
    if v.is_empty() {
        return;
    }
    let mut x = v[pick_idx(from, v.len())].clone();
    near(&mut x, v);
    let at = pick_idx(to, v.len() + 1);
    v.insert(at, x);
}

/// the copy of a candidate with exactly one field (0..10) taken from `src`
pub fn splice_candidate_field(c: &mut CandC, src: &CandC, field: u8) {
    match field % 10 {
        0 => c.foundation = src.foundation.clone(),
        1 => c.component = src.component,
        2 => c.transport = src.transport.clone(),
        3 => c.priority = src.priority,
        4 => c.address = src.address.clone(),
        5 => c.port = src.port,
        6 => c.typ = src.typ.clone(),
        7 => c.rel_addr = src.rel_addr.clone(),
        8 => c.rel_port = src.rel_port,
        _ => c.unknown = src.unknown.clone(),
    }
}

pub fn repeat_in_media(m: &mut MediaC, op: &MediaRepeat) {
    use crate::engine::pick_idx;
    // (list id, non-empty?)
    let has_keys = m.crypto.iter().any(|c| !c.keys.is_empty());
    let has_params = m.crypto.iter().any(|c| !c.params.is_empty());
    let has_pairs = m.candidates.iter().any(|c| !c.unknown.is_empty());
    let lists: Vec<u8> = [
        (0u8, !m.fmts.is_empty()),
        (1, !m.bandwidth.is_empty()),
        (2, !m.rtpmaps.is_empty()),
        (3, !m.fmtps.is_empty()),
        (4, !m.candidates.is_empty()),
        // candidates twice: the list whose elements have the most fields
        (4, !m.candidates.is_empty()),
        (5, !m.crypto.is_empty()),
        (6, !m.attributes.is_empty()),
        (7, has_keys),
        (8, has_params),
        (9, has_pairs),
    ]
    .into_iter()
    .filter(|(_, ok)| *ok)
    .map(|(id, _)| id)
    .collect();
    if lists.is_empty() {
        return;
    }
    let (exact, other) = (op.exact, op.other);
    match lists[pick_idx(op.list, lists.len())] {
        0 => insert_copy(&mut m.fmts, op.from, op.to, |_, _| {}),
        // near duplicates of keyed elements: the copy keeps its own content and takes the KEY of another
        // element of the list (same key, different content — with a single element it stays verbatim)
        1 => insert_copy(&mut m.bandwidth, op.from, op.to, |x, all| {
            if !exact {
                x.type_ = all[pick_idx(other, all.len())].type_.clone();
            }
        }),
        2 => insert_copy(&mut m.rtpmaps, op.from, op.to, |x, all| {
            if !exact {
                x.payload = all[pick_idx(other, all.len())].payload;
            }
        }),
        3 => insert_copy(&mut m.fmtps, op.from, op.to, |x, all| {
            if !exact {
                x.format = all[pick_idx(other, all.len())].format;
            }
        }),
        4 => insert_copy(&mut m.candidates, op.from, op.to, |x, _| {
            if !exact {
                splice_candidate_field(x, &op.spare, op.field);
            }
        }),
        5 => insert_copy(&mut m.crypto, op.from, op.to, |x, all| {
            if !exact {
                x.tag = all[pick_idx(other, all.len())].tag;
            }
        }),
        6 => insert_copy(&mut m.attributes, op.from, op.to, |x, all| {
            if !exact {
                x.name = all[pick_idx(other, all.len())].name.clone();
                // the new name with the copy's own value (or lack of one) may be a spelling the crate interprets
                keep_attr_unknown(x);
            }
        }),
        7 => {
            let idx: Vec<usize> = (0..m.crypto.len()).filter(|i| !m.crypto[*i].keys.is_empty()).collect();
            let c = &mut m.crypto[idx[pick_idx(other, idx.len())]];
            insert_copy(&mut c.keys, op.from, op.to, |_, _| {});
        }
        8 => {
            let idx: Vec<usize> = (0..m.crypto.len()).filter(|i| !m.crypto[*i].params.is_empty()).collect();
            let c = &mut m.crypto[idx[pick_idx(other, idx.len())]];
            insert_copy(&mut c.params, op.from, op.to, |_, _| {});
        }
        _ => {
            let idx: Vec<usize> = (0..m.candidates.len()).filter(|i| !m.candidates[*i].unknown.is_empty()).collect();
            let c = &mut m.candidates[idx[pick_idx(other, idx.len())]];
            insert_copy(&mut c.unknown, op.from, op.to, |_, _| {});
        }
    }
}

fn media_repeat() -> BoxedStrategy<MediaRepeat> {
    (
        any::<u16>(),
        any::<u16>(),
        any::<u16>(),
        prop::bool::weighted(0.6),
        any::<u16>(),
        0u8..10,
        candidate(),
    )
        .prop_map(|(list, from, to, exact, other, field, spare)| MediaRepeat {
            list,
            from,
            to,
            exact,
            other,
            field,
            spare,
        })
        .boxed()
}

/// a media section, with weight ~1/3 holding one repeated list element
pub fn media() -> BoxedStrategy<MediaC> {
    (media_plain(), option::weighted(0.35, media_repeat()))
        .prop_map(|(mut m, op)| {
            if let Some(op) = &op {
                repeat_in_media(&mut m, op);
            }
            m
        })
        .boxed()
}

fn media_plain() -> BoxedStrategy<MediaC> {
    (
        (
            media_type(),
            edge_u16(),
            option::weighted(0.3, edge_u32()),
            proto(),
            vec(edge_u32(), 0..=4),
            dir(),
        ),
        (
            option::weighted(0.4, conn()),
            vec(bw(), 0..=2),
            option::weighted(0.4, rtcp()),
            vec(rtpmap(), 0..=3),
            vec(fmtp(), 0..=2),
        ),
        (
            option::weighted(0.4, ufrag()),
            option::weighted(0.4, pwd()),
            prop_oneof![2 => Just(vec![]), 3 => vec(candidate(), 1..=4)],
            prop::bool::weighted(0.4),
            prop_oneof![2 => Just(vec![]), 3 => vec(crypto(), 1..=3)],
            vec(attr(), 0..=3),
        ),
    )
        .prop_map(
            |(
                (media_type, port, ports_num, proto, fmts, direction),
                (connection, bandwidth, rtcp, rtpmaps, fmtps),
                (ice_ufrag, ice_pwd, candidates, end_of_candidates, crypto, attributes),
            )| MediaC {
                media_type,
                port,
                ports_num,
                proto,
                fmts,
                direction,
                connection,
                bandwidth,
                rtcp,
                rtpmaps,
                fmtps,
                ice_ufrag,
                ice_pwd,
                candidates,
                end_of_candidates,
                crypto,
                attributes,
            },
        )
        .boxed()
}

pub fn crypto_line() -> BoxedStrategy<CryptoC> {
    crypto()
}

/// One repetition at session level
#[derive(Clone, Debug)]
pub struct SessionRepeat {
    pub list: u16,
    pub from: u16,
    pub to: u16,
    pub exact: bool,
    pub other: u16,
}

pub fn repeat_in_session(c: &mut SdpCase, op: &SessionRepeat) {
    use crate::engine::pick_idx;
    let with_cands: Vec<usize> = (0..c.media.len()).filter(|i| !c.media[*i].candidates.is_empty()).collect();
    let lists: Vec<u8> = [
        (0u8, !c.bandwidth.is_empty()),
        (1, !c.ice_options.is_empty()),
        (2, !c.attributes.is_empty()),
        // an equal media section (weight 2)
        (3, !c.media.is_empty()),
        (3, !c.media.is_empty()),
        // one candidate of a section copied into another (or the same) section (weight 2)
        (4, !with_cands.is_empty() && c.media.len() >= 2),
        (4, !with_cands.is_empty() && c.media.len() >= 2),
    ]
    .into_iter()
    .filter(|(_, ok)| *ok)
    .map(|(id, _)| id)
    .collect();
    if lists.is_empty() {
        return;
    }
    let (exact, other) = (op.exact, op.other);
    match lists[pick_idx(op.list, lists.len())] {
        0 => insert_copy(&mut c.bandwidth, op.from, op.to, |x, all| {
            if !exact {
                x.type_ = all[pick_idx(other, all.len())].type_.clone();
            }
        }),
        1 => insert_copy(&mut c.ice_options, op.from, op.to, |_, _| {}),
        2 => insert_copy(&mut c.attributes, op.from, op.to, |x, all| {
            if !exact {
                x.name = all[pick_idx(other, all.len())].name.clone();
                keep_attr_unknown(x);
            }
        }),
        3 => insert_copy(&mut c.media, op.from, op.to, |_, _| {}),
        _ => {
            let src = with_cands[pick_idx(other, with_cands.len())];
            let cand = {
                let l = &c.media[src].candidates;
                l[pick_idx(op.from, l.len())].clone()
            };
            let dst = pick_idx(op.to, c.media.len());
            let l = &mut c.media[dst].candidates;
            // position inside the destination list derived from the same selector, other end first
            let at = pick_idx(op.to.rotate_left(7), l.len() + 1);
            l.insert(at, cand);
        }
    }
}

fn session_repeat() -> BoxedStrategy<SessionRepeat> {
    (any::<u16>(), any::<u16>(), any::<u16>(), prop::bool::weighted(0.6), any::<u16>())
        .prop_map(|(list, from, to, exact, other)| SessionRepeat {
            list,
            from,
            to,
            exact,
            other,
        })
        .boxed()
}

fn session_with(media: BoxedStrategy<Vec<MediaC>>) -> BoxedStrategy<SdpCase> {
    (session_plain(media), option::weighted(0.3, session_repeat()))
        .prop_map(|(mut c, op)| {
            if let Some(op) = &op {
                repeat_in_session(&mut c, op);
            }
            c
        })
        .boxed()
}

fn session_plain(media: BoxedStrategy<Vec<MediaC>>) -> BoxedStrategy<SdpCase> {
    (
        (nonws(), nonws(), nonws(), tagged()),
        line_text(24),
        (option::weighted(0.5, conn()), vec(bw(), 0..=3), (edge_u64(), edge_u64()), dir()),
        (
            vec(ice_chars(1, 8), 0..=3),
            prop::bool::weighted(0.4),
            option::weighted(0.4, ufrag()),
            option::weighted(0.4, pwd()),
            vec(attr(), 0..=3),
        ),
        media,
    )
        .prop_map(
            |(
                (username, session_id, session_version, address),
                name,
                (connection, bandwidth, time, direction),
                (ice_options, ice_lite, ice_ufrag, ice_pwd, attributes),
                media,
            )| SdpCase {
                origin: OriginC {
                    username,
                    session_id,
                    session_version,
                    address,
                },
                name,
                connection,
                bandwidth,
                time,
                direction,
                ice_options,
                ice_lite,
                ice_ufrag,
                ice_pwd,
                attributes,
                media,
            },
        )
        .boxed()
}

/// `SessionDescription` values with 0..4 media sections (one more when a section is repeated)
pub fn session() -> BoxedStrategy<SdpCase> {
    session_with(vec(media(), 0..=4).boxed())
}

/// `SessionDescription` values with 1..3 (+1 repeated) media sections (for metamorphic token checks)
pub fn session_with_media() -> BoxedStrategy<SdpCase> {
    session_with(vec(media(), 1..=3).boxed())
}

// ---------------------------------------------------------------------------------------------
// text generation
// ---------------------------------------------------------------------------------------------

/// decimal numbers around and far beyond every integer width the crate parses into
pub const HOSTILE_NUMBERS: [&str; 20] = [
    "0",
    "1",
    "31",
    "32",
    "33",
    "63",
    "64",
    "99",
    "255",
    "256",
    "65535",
    "65536",
    "2147483648",
    "4294967295",
    "4294967296",
    "18446744073709551615",
    "18446744073709551616",
    "99999999999999999999",
    "340282366920938463463374607431768211456",
    "00000000000000000000000000000000000000001",
];

/// line templates: `#` = a hostile number, `^` = an exponent 0..=99
pub const HOSTILE_TEMPLATES: [&str; 30] = [
    "a=crypto:1 AES_CM_128_HMAC_SHA1_80 inline:d0RmdmcmVCspeEc3QGZiNWpVLFJhQX1cfHAwJSoj|2^^|1:4",
    "a=crypto:# AES_CM_128_HMAC_SHA1_32 inline:abc|2^^",
    "a=crypto:# AEAD_AES_256_GCM inline:abc|#|#:# KDR=# WSH=# FEC_KEY=inline:xyz|2^^|#:#",
    "a=crypto:1 F8_128_HMAC_SHA1_80 inline:abc|2^^;inline:def|2^^|#:# FEC_ORDER=FEC_SRTP",
    "a=crypto:1 FOO_# inline:abc|#",
    "a=crypto:1 AES_CM_128_HMAC_SHA1_80 inline:|2^^",
    "a=crypto:1 AES_CM_128_HMAC_SHA1_80",
    "m=audio # RTP/AVP # #",
    "m=video #/# RTP/SAVPF # # #",
    "m=audio# # RTP/AVP #",
    "m=application # UDP/DTLS/SCTP webrtc-datachannel",
    "m=text #/# udp",
    "c=IN IP4 224.2.1.1/#/#",
    "c=IN IP4 host.example/#",
    "c=IN IP6 ff15::101/#",
    "c=IN IP6 ::#.#.#.#/#/#",
    "b=AS:#",
    "b=:#",
    "t=# #",
    "o=- # # IN IP4 #.#.#.#",
    "a=rtpmap:# opus/#/#",
    "a=rtpmap:# /#",
    "a=fmtp:# minptime=#",
    "a=rtcp:# IN IP4 192.0.2.1",
    "a=rtcp:# IN IP6 #::#",
    "a=candidate:# # UDP # 192.0.2.1 # typ host raddr 192.0.2.2 rport #",
    "a=candidate:F00 # TCP # ::# # typ srflx generation # rport # raddr #",
    "a=ice-ufrag:#",
    "a=ice-pwd:##",
    "a=ice-options:# #",
];

pub fn fill_template(t: &str, nums: &[u16], exps: &[u8]) -> String {
    let mut out = String::new();
    let (mut ni, mut ei) = (0usize, 0usize);
    let chars: Vec<char> = t.chars().collect();
    let mut i = 0;
    while i < chars.len() {
        let c = chars[i];
        // "2^^": the first '^' is literal, the second the exponent slot
        if c == '^' && i > 0 && chars[i - 1] == '^' {
            let e = exps.get(ei % exps.len().max(1)).copied().unwrap_or(40);
            ei += 1;
            out.push_str(&e.to_string());
        } else if c == '#' {
            let sel = nums.get(ni % nums.len().max(1)).copied().unwrap_or(0);
            ni += 1;
            out.push_str(HOSTILE_NUMBERS[crate::engine::pick_idx(sel, HOSTILE_NUMBERS.len())]);
        } else {
            out.push(c);
        }
        i += 1;
    }
    out
}

fn hostile_line() -> BoxedStrategy<String> {
    (any::<u16>(), vec(any::<u16>(), 8), vec(0u8..=99, 4))
        .prop_map(|(t, nums, exps)| {
            fill_template(
                HOSTILE_TEMPLATES[crate::engine::pick_idx(t, HOSTILE_TEMPLATES.len())],
                &nums,
                &exps,
            )
        })
        .boxed()
}

/// a document made of a valid header and hostile lines
pub fn hostile_doc() -> BoxedStrategy<String> {
    (vec(hostile_line(), 1..=8), prop::bool::weighted(0.8), any::<bool>())
        .prop_map(|(lines, header, crlf)| {
            let mut all: Vec<String> = vec![];
            if header {
                all.push("v=0".into());
                all.push("o=- 1 1 IN IP4 192.0.2.1".into());
                all.push("s=-".into());
                all.push("t=0 0".into());
                all.push("m=audio 9 RTP/AVP 0".into());
            }
            all.extend(lines);
            let sep = if crlf { "\r\n" } else { "\n" };
            let mut s = all.join(sep);
            s.push_str(sep);
            s
        })
        .boxed()
}

#[derive(Clone, Debug, Serialize, Deserialize)]
pub enum Mutation {
    ReplaceChar(u16, char),
    InsertChar(u16, char),
    DeleteChar(u16),
    DeleteRange(u16, u8),
    DupLine(u16),
    DelLine(u16),
    SwapLines(u16, u16),
    TruncLine(u16, u16),
    InsertLine(u16, String),
    /// replace the n-th maximal digit run by a hostile number
    ReplaceNumber(u16, u16),
    /// replace the n-th maximal digit run that follows "2^" by an exponent 0..=99
    ReplaceExponent(u16, u8),
}

fn interesting_char() -> BoxedStrategy<char> {
    prop_oneof![
        4 => prop::sample::select(vec![' ', ':', '/', '=', '|', ';', '^', '-', '\t', '\r', '\n', '0', '9', '2', 'a', 'm', 'F', '_', '.', 'é', '😀', '\u{0}', '\u{c}']),
        1 => any::<char>(),
    ]
    .boxed()
}

pub fn mutation() -> BoxedStrategy<Mutation> {
    prop_oneof![
        2 => (any::<u16>(), interesting_char()).prop_map(|(p, c)| Mutation::ReplaceChar(p, c)),
        2 => (any::<u16>(), interesting_char()).prop_map(|(p, c)| Mutation::InsertChar(p, c)),
        2 => any::<u16>().prop_map(Mutation::DeleteChar),
        1 => (any::<u16>(), 1u8..20).prop_map(|(p, n)| Mutation::DeleteRange(p, n)),
        1 => any::<u16>().prop_map(Mutation::DupLine),
        1 => any::<u16>().prop_map(Mutation::DelLine),
        1 => (any::<u16>(), any::<u16>()).prop_map(|(a, b)| Mutation::SwapLines(a, b)),
        1 => (any::<u16>(), any::<u16>()).prop_map(|(a, b)| Mutation::TruncLine(a, b)),
        2 => (any::<u16>(), hostile_line()).prop_map(|(a, l)| Mutation::InsertLine(a, l)),
        4 => (any::<u16>(), any::<u16>()).prop_map(|(a, b)| Mutation::ReplaceNumber(a, b)),
        2 => (any::<u16>(), 0u8..=99).prop_map(|(a, b)| Mutation::ReplaceExponent(a, b)),
    ]
    .boxed()
}

fn digit_runs(chars: &[char]) -> Vec<(usize, usize)> {
    let mut runs = vec![];
    let mut i = 0;
    while i < chars.len() {
        if chars[i].is_ascii_digit() {
            let s = i;
            while i < chars.len() && chars[i].is_ascii_digit() {
                i += 1;
            }
            runs.push((s, i));
        } else {
            i += 1;
        }
    }
    runs
}

pub fn apply_mutation(text: &str, m: &Mutation) -> String {
    use crate::engine::pick_idx;
    let mut chars: Vec<char> = text.chars().collect();
    let by_lines = |f: &mut dyn FnMut(&mut Vec<String>)| -> String {
        let mut lines: Vec<String> = text.split("\r\n").map(String::from).collect();
        f(&mut lines);
        lines.join("\r\n")
    };
    match m {
        Mutation::ReplaceChar(p, c) => {
            if !chars.is_empty() {
                let i = pick_idx(*p, chars.len());
                chars[i] = *c;
            }
            chars.into_iter().collect()
        }
        Mutation::InsertChar(p, c) => {
            let i = pick_idx(*p, chars.len() + 1);
            chars.insert(i, *c);
            chars.into_iter().collect()
        }
        Mutation::DeleteChar(p) => {
            if !chars.is_empty() {
                let i = pick_idx(*p, chars.len());
                chars.remove(i);
            }
            chars.into_iter().collect()
        }
        Mutation::DeleteRange(p, n) => {
            if !chars.is_empty() {
                let i = pick_idx(*p, chars.len());
                let e = (i + *n as usize).min(chars.len());
                chars.drain(i..e);
            }
            chars.into_iter().collect()
        }
        Mutation::DupLine(a) => by_lines(&mut |l| {
            let i = pick_idx(*a, l.len());
            let x = l[i].clone();
            l.insert(i, x);
        }),
        Mutation::DelLine(a) => by_lines(&mut |l| {
            let i = pick_idx(*a, l.len());
            l.remove(i);
        }),
        Mutation::SwapLines(a, b) => by_lines(&mut |l| {
            let i = pick_idx(*a, l.len());
            let j = pick_idx(*b, l.len());
            l.swap(i, j);
        }),
        Mutation::TruncLine(a, b) => by_lines(&mut |l| {
            let i = pick_idx(*a, l.len());
            let cs: Vec<char> = l[i].chars().collect();
            let k = pick_idx(*b, cs.len() + 1);
            l[i] = cs[..k].iter().collect();
        }),
        Mutation::InsertLine(a, line) => by_lines(&mut |l| {
            let i = pick_idx(*a, l.len() + 1);
            l.insert(i, line.clone());
        }),
        Mutation::ReplaceNumber(a, b) => {
            let runs = digit_runs(&chars);
            if runs.is_empty() {
                return text.to_string();
            }
            let (s, e) = runs[pick_idx(*a, runs.len())];
            let rep: Vec<char> = HOSTILE_NUMBERS[pick_idx(*b, HOSTILE_NUMBERS.len())].chars().collect();
            chars.splice(s..e, rep);
            chars.into_iter().collect()
        }
        Mutation::ReplaceExponent(a, b) => {
            let runs: Vec<(usize, usize)> = digit_runs(&chars)
                .into_iter()
                .filter(|(s, _)| *s >= 2 && chars[*s - 1] == '^' && chars[*s - 2] == '2')
                .collect();
            if runs.is_empty() {
                return text.to_string();
            }
            let (s, e) = runs[pick_idx(*a, runs.len())];
            let rep: Vec<char> = b.to_string().chars().collect();
            chars.splice(s..e, rep);
            chars.into_iter().collect()
        }
    }
}
