#!/usr/bin/env python3
"""Regenerates seeded/README.md from seeded/*/meta.json, confirm.txt and result.txt."""
import json, os, re, glob
rows = []
for d in sorted(glob.glob('/verif/seeded/C*-*'), key=lambda p: (p.split('/')[-1].split('-')[0], int(p.split('-')[-1]))):
    sid = os.path.basename(d)
    try:
        m = json.load(open(d + '/meta.json'))
    except Exception:
        m = {}
    title = str(m.get('title') or m.get('summary') or m.get('what') or '')[:150].replace('|', '/').replace('\n', ' ')
    needs = str(m.get('needs_to_manifest') or m.get('needs') or m.get('what_it_needs') or '')[:220].replace('|', '/').replace('\n', ' ')
    res = open(d + '/result.txt').read() if os.path.exists(d + '/result.txt') else ''
    caught = 'caught' if 'VIOLATION' in res else ('MISSED' if 'OK property' in res else '?')
    if caught != 'caught' and os.path.exists(d + '/not-reached.txt'):
        caught = 'not reached (thread race, see not-reached.txt)'
    sig = re.search(r'replay=/verif/replays/(\S+)', res)
    conf = open(d + '/confirm.txt').read() if os.path.exists(d + '/confirm.txt') else ''
    ok = all(x in conf for x in ('demo on clean tree: exit 0', 'existing tests with patch: exit 0')) and 'demo with patch: exit 0' not in conf
    rows.append((sid, title, needs, caught, sig.group(1) if sig else '', 'yes' if ok else 'see confirm.txt'))
with open('/verif/seeded/README.md', 'w') as f:
    f.write('''# Seeded breaking changes

Each directory holds a change to ezk written by a fresh sub-agent that saw only the property text and a scratch
worktree (`patch.diff`), its demonstration (`demo.rs`: fails with the change, passes without), the agent's
`meta.json`, `confirm.txt` (the integrator's own confirmation in the scratch worktree: demo passes on the clean
tree, the existing suite passes with the patch, the demo fails with the patch) and `result.txt` (quick check of the
property against `/repo` with the patch applied, written by `seedcheck_all.sh`).
`-1`/`-2` = round 1, `-3`/`-4` = round 2, `-5`/`-6` = round 3, `-7`/`-8` = round 4, `-9`/`-10` = round 5 (ten properties only); from round 2 on the agents were told what had already been delivered. DESIGN.md section 9.2
records which checks had to be strengthened for which change.

Re-run one: `./tryseed.sh <ID>-<n>` (applies the patch to /repo, runs the property's quick check, reverts);
all: `./seedcheck_all.sh`.

| id | change | needs, in order to manifest | confirmed | quick check | first replay written |
|---|---|---|---|---|---|
''')
    for r in rows:
        f.write('| ' + ' | '.join(r) + ' |\n')
print(len(rows), 'rows;', sum(1 for r in rows if r[3] == 'caught'), 'caught')
